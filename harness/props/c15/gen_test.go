package c15

// Case generation: programs of prog.Gen (safe, stratifiable, type-consistent by construction), post-processed
// into the shapes C15 is about: rule orders with the recursive rule first, predicates with facts and rules,
// body-local variables defined by arithmetic, no wildcard inside a negated atom (analysis rejects those).

import (
	"fmt"
	"strings"

	"pgregory.net/rapid"
	"verif/prog"
	"verif/stats"
	"verif/val"
)

var numDomain = []int64{0, 1, 2, 3, 4}
var nameDomain = []string{"/a", "/b", "/c"}

// removedColliders counts, per generated case, the constants that the K08 exclusion turned into plain names.
var removedColliders int

// genConst draws a constant for a column of the given type. While the known finding K08 is excluded, name
// columns hold names only; with the exclusion switched off they may also hold the string "/a", whose hash
// equals that of the name /a.
func genConst(t *rapid.T, typ byte) prog.Term {
	if typ == 'a' {
		if rapid.IntRange(0, 2).Draw(t, "collider") == 0 {
			if !stats.Exclusion("K08-hash-colliders") {
				return prog.Const(val.S("/a"))
			}
			removedColliders++ // counted with run.Excluded by the test function
		}
		return prog.Const(val.N(rapid.SampledFrom(nameDomain).Draw(t, "name")))
	}
	return prog.Num(rapid.SampledFrom(numDomain).Draw(t, "num"))
}

func schemaOf(g prog.Generated) map[string]prog.PredInfo {
	m := map[string]prog.PredInfo{}
	for _, p := range g.Schema {
		m[p.Name] = p
	}
	return m
}

// groundNegations replaces wildcards inside negated atoms by constants (a wildcard there is rejected by the
// analysis since the repair of K03a, so such programs would only be counted as "rejected").
func groundNegations(t *rapid.T, g *prog.Generated) {
	schema := schemaOf(*g)
	for ri := range g.Prog.Rules {
		for _, l := range g.Prog.Rules[ri].Body {
			if l.K != prog.LNeg {
				continue
			}
			cols := schema[l.Atom.Pred].Cols
			for i, a := range l.Atom.Args {
				if a.IsWildcard() {
					typ := byte('n')
					if i < len(cols) {
						typ = cols[i]
					}
					l.Atom.Args[i] = genConst(t, typ)
				}
			}
		}
	}
}

// localArith adds, to about a third of the rules, a body-local variable Z = fn:plus/minus(X, c) over a number
// variable X of a positive atom, and a literal that uses Z: a further positive atom (the shape of K09b), a
// negated atom of a lower level, an inequality, or - in rules without an atom of the head's own level, so
// that models stay finite - a head argument. No comparison guards are needed because Z never feeds a
// recursive head.
func localArith(t *rapid.T, g *prog.Generated, labels map[string]bool) {
	schema := schemaOf(*g)
	for ri := range g.Prog.Rules {
		r := &g.Prog.Rules[ri]
		if rapid.IntRange(0, 2).Draw(t, "localArith") != 0 {
			continue
		}
		head := schema[r.Head.Pred]
		var nums []string
		seen := map[string]bool{}
		recursive := false
		for _, l := range r.Body {
			if l.K != prog.LAtom {
				continue
			}
			if schema[l.Atom.Pred].Level == head.Level {
				recursive = true
			}
			for _, a := range l.Atom.Args {
				if a.IsVar() && !a.IsWildcard() && strings.HasPrefix(a.Var, "N") && !seen[a.Var] {
					seen[a.Var] = true
					nums = append(nums, a.Var)
				}
			}
		}
		if len(nums) == 0 {
			continue
		}
		x := rapid.SampledFrom(nums).Draw(t, "laX")
		z := fmt.Sprintf("Z%d", ri)
		fn := rapid.SampledFrom([]string{"fn:plus", "fn:plus", "fn:minus"}).Draw(t, "laFn")
		expr := prog.Fn(fn, prog.Var(x), prog.Num(rapid.Int64Range(0, 2).Draw(t, "laC")))
		def := prog.EqLit(prog.Var(z), expr)
		if rapid.Bool().Draw(t, "laFlip") {
			def = prog.EqLit(expr, prog.Var(z))
		}
		// candidates for the literal that uses Z
		var posPreds, negPreds []prog.PredInfo
		for _, p := range g.Schema {
			if !strings.Contains(p.Cols, "n") {
				continue
			}
			if p.Level <= head.Level {
				posPreds = append(posPreds, p)
			}
			if p.Level < head.Level {
				negPreds = append(negPreds, p)
			}
		}
		atomWith := func(p prog.PredInfo, positive bool) prog.Atom {
			var ncols []int
			for i := range p.Cols {
				if p.Cols[i] == 'n' {
					ncols = append(ncols, i)
				}
			}
			zcol := rapid.SampledFrom(ncols).Draw(t, "laCol")
			a := prog.Atom{Pred: p.Name, Args: []prog.Term{}}
			for i := range p.Cols {
				switch {
				case i == zcol:
					a.Args = append(a.Args, prog.Var(z))
				case positive && rapid.IntRange(0, 2).Draw(t, "laOther") == 0:
					a.Args = append(a.Args, prog.Var(fmt.Sprintf("W%dx%d", ri, i)))
				case p.Cols[i] == 'n' && rapid.Bool().Draw(t, "laReuse"):
					a.Args = append(a.Args, prog.Var(x))
				default:
					a.Args = append(a.Args, genConst(t, p.Cols[i]))
				}
			}
			return a
		}
		var headCols []int
		for i := range head.Cols {
			if head.Cols[i] == 'n' {
				headCols = append(headCols, i)
			}
		}
		uses := []string{"neq"}
		if len(posPreds) > 0 {
			uses = append(uses, "pos", "pos", "pos")
		}
		if len(negPreds) > 0 {
			uses = append(uses, "neg")
		}
		if !recursive && len(headCols) > 0 {
			uses = append(uses, "head", "head")
		}
		r.Body = append(r.Body, def)
		switch use := rapid.SampledFrom(uses).Draw(t, "laUse"); use {
		case "pos":
			r.Body = append(r.Body, prog.PosLit(atomWith(rapid.SampledFrom(posPreds).Draw(t, "laPos"), true)))
		case "neg":
			r.Body = append(r.Body, prog.NegLit(atomWith(rapid.SampledFrom(negPreds).Draw(t, "laNeg"), false)))
		case "head":
			r.Head.Args[rapid.SampledFrom(headCols).Draw(t, "laHead")] = prog.Var(z)
		default:
			r.Body = append(r.Body, prog.NeqLit(prog.Var(z), prog.Var(x)))
		}
		labels["local-arith"] = true
	}
}

// idbFacts gives about a third of the intensional predicates one or two facts in the program text (K09c).
func idbFacts(t *rapid.T, g *prog.Generated, labels map[string]bool) {
	for _, p := range g.Schema {
		if p.Level < 0 || rapid.IntRange(0, 2).Draw(t, "idbFact") != 0 {
			continue
		}
		n := rapid.IntRange(1, 2).Draw(t, "nIdbFacts")
		for i := 0; i < n; i++ {
			a := prog.Atom{Pred: p.Name, Args: []prog.Term{}}
			for c := range p.Cols {
				a.Args = append(a.Args, genConst(t, p.Cols[c]))
			}
			g.Prog.Facts = append(g.Prog.Facts, a)
		}
		labels["idb-fact"] = true
	}
}

func genProbes(t *rapid.T, g prog.Generated) []prog.Atom {
	var probes []prog.Atom
	n := rapid.IntRange(0, 4).Draw(t, "nProbes")
	for i := 0; i < n; i++ {
		p := rapid.SampledFrom(g.Schema).Draw(t, "probePred")
		a := prog.Atom{Pred: p.Name, Args: []prog.Term{}}
		for c := range p.Cols {
			a.Args = append(a.Args, genConst(t, p.Cols[c]))
		}
		probes = append(probes, a)
	}
	return probes
}

func genCase(t *rapid.T, kind string) Case {
	c := Case{Kind: kind}
	labels := map[string]bool{}
	if kind == kindTransforms {
		if rapid.Bool().Draw(t, "agg") {
			c.Gen = prog.GenAgg().Draw(t, "prog")
		} else {
			c.Gen = prog.Gen(prog.GenOpts{Neg: true, Neq: true, Eq: true, Arith: true, Let: true, NegAnywhere: true}).Draw(t, "prog")
		}
		groundNegations(t, &c.Gen)
	} else {
		// positive atoms, negated atoms, = and != only: built-in comparisons make proofs partial by design.
		c.Gen = prog.Gen(prog.GenOpts{Neg: true, Neq: true, Eq: true, NegAnywhere: true}).Draw(t, "prog")
		groundNegations(t, &c.Gen)
		localArith(t, &c.Gen, labels)
		idbFacts(t, &c.Gen, labels)
		c.Probes = genProbes(t, c.Gen)
	}
	// any rule order: in particular the recursive rule of a predicate before its exit rule.
	c.Gen.Prog.Rules = rapid.Permutation(c.Gen.Prog.Rules).Draw(t, "ruleOrder")
	for l := range labels {
		c.Gen.Labels = append(c.Gen.Labels, l)
	}
	c.MaxProofs = rapid.SampledFrom([]int{1, 2, 5}).Draw(t, "maxProofs")
	c.Store = rapid.SampledFrom([]string{"simple", "indexed", "multiindexed", "multiindexedarray"}).Draw(t, "store")
	c.Text = c.Gen.Prog.Source()
	return c
}
