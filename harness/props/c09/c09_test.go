// Package c09 checks property C09: printing then parsing returns the same term, atom or clause.
//
// A case is a constant, an atom, a type expression or a clause, held as the harness' own tree (constants
// as val.V). It is built into the library's syntax tree through the public constructors, printed with
// String(), parsed back with parse.BaseTerm / parse.Atom / parse.Clause and compared with an own
// structural comparer:
//   - a constant is compared by canonical key (val.Key) after functional.EvalExpr of what the parser
//     returned (lists, maps, structs, pairs, times and durations print as constructor expressions), and
//     then by the order in which the public accessors (MapValues/StructValues) yield the entries of
//     every map and struct: the entry sequence is part of the constant's structure (Constant.Equals
//     compares it), so the same entries in another order are not the same constant;
//   - function arity is ignored (the parser records the actual count, constructors often -1), exactly as
//     ApplyFn.Equals does;
//   - a missing head annotation and the eternal interval are the same;
//   - bounds are compared by kind and value (not with Interval.Equals, which is false for a duration
//     bound compared with itself).
//
// Only trees the source syntax can express are generated: lexer-valid names, predicate, function and
// variable symbols, valid UTF-8 strings, finite floats, timestamps with four-digit years, duration
// bounds that are non-negative multiples of 1 ms, temporal literals over positive atoms that carry an
// operator or an annotation, no infinity bounds inside operators, bodies that are nil or non-empty.
package c09

import (
	"encoding/json"
	"fmt"
	"math"
	"strings"
	"testing"
	"time"

	"codeberg.org/TauCeti/mangle-go/ast"
	"codeberg.org/TauCeti/mangle-go/functional"
	"codeberg.org/TauCeti/mangle-go/parse"
	"codeberg.org/TauCeti/mangle-go/symbols"
	"pgregory.net/rapid"
	"verif/stats"
	"verif/val"
)

// ---------------------------------------------------------------------------------------------
// Case trees (replay format).

// BT is a base term: a constant, a variable or a function application.
type BT struct {
	C    *val.V `json:"c,omitempty"`
	Var  string `json:"var,omitempty"`
	Fn   string `json:"fn,omitempty"`
	Args []BT   `json:"args,omitempty"`
}

// Bound kinds.
const (
	bTS  = "ts"  // timestamp, N = Unix nanoseconds
	bDur = "dur" // duration, N = nanoseconds (non-negative multiple of 1ms)
	bVar = "var" // variable V
	bNow = "now"
	bInf = "inf" // "_" in an annotation: -inf as start, +inf as end
)

// Bound is a temporal bound.
type Bound struct {
	K string `json:"k"`
	N int64  `json:"n,omitempty"`
	V string `json:"v,omitempty"`
}

// Ival is an annotation @[S, E].
type Ival struct {
	S Bound `json:"s"`
	E Bound `json:"e"`
}

// Oper is a temporal operator: T = 0 <- , 1 [- , 2 <+ , 3 [+ .
type Oper struct {
	T int   `json:"t"`
	S Bound `json:"s"`
	E Bound `json:"e"`
}

// Literal kinds.
const (
	lAtom = "atom"
	lNeg  = "neg"
	lEq   = "eq"
	lIneq = "ineq"
	lTemp = "temporal"
)

// Lit is a body literal (or a head atom: K = atom).
type Lit struct {
	K    string `json:"k"`
	Pred string `json:"pred,omitempty"`
	Args []BT   `json:"args,omitempty"`
	L    *BT    `json:"l,omitempty"`
	R    *BT    `json:"r,omitempty"`
	Op   *Oper  `json:"op,omitempty"`
	At   *Ival  `json:"at,omitempty"`
}

// Stmt is a transform statement: "do Fn" (Var empty) or "let Var = Fn".
type Stmt struct {
	Var string `json:"var,omitempty"`
	Fn  BT     `json:"fn"`
}

// Trans is a transform, possibly followed by another one (|> ... |> ...).
type Trans struct {
	Stmts []Stmt `json:"stmts"`
	Next  *Trans `json:"next,omitempty"`
}

// Clause: a fact when Body is empty.
type Clause struct {
	Head     Lit    `json:"head"`
	HeadTime *Ival  `json:"head_time,omitempty"`
	Body     []Lit  `json:"body,omitempty"`
	Tr       *Trans `json:"transform,omitempty"`
}

// Case kinds.
const (
	kConst  = "const"
	kAtom   = "atom"
	kType   = "type"
	kClause = "clause"
)

// Case is one round-trip subject.
type Case struct {
	Kind   string  `json:"kind"`
	Const  *val.V  `json:"const,omitempty"`
	Atom   *Lit    `json:"atom,omitempty"`
	Type   *BT     `json:"type,omitempty"`
	Clause *Clause `json:"clause,omitempty"`
	// TZOffsetMin != 0: the library's process-wide default timezone is set to a fixed zone with that offset (minutes
	// east of UTC) while the case runs, and reset to UTC afterwards. Printing then parsing must not depend on it.
	TZOffsetMin int `json:"tzOffsetMin,omitempty"`
}

func (c Case) hash() uint64 {
	b, _ := json.Marshal(c)
	return stats.Hash(string(b))
}

// ---------------------------------------------------------------------------------------------
// Building the library's trees.

func (b BT) build() ast.BaseTerm {
	switch {
	case b.C != nil:
		return b.C.Build()
	case b.Fn != "":
		args := make([]ast.BaseTerm, len(b.Args))
		for i, a := range b.Args {
			args[i] = a.build()
		}
		return buildFn(b.Fn, args)
	default:
		return ast.Variable{Symbol: b.Var}
	}
}

// buildFn goes through the constructors of package symbols for type expressions.
func buildFn(fn string, args []ast.BaseTerm) ast.ApplyFn {
	switch {
	case fn == symbols.PairType.Symbol && len(args) == 2:
		return symbols.NewPairType(args[0], args[1])
	case fn == symbols.TupleType.Symbol:
		return symbols.NewTupleType(args...)
	case fn == symbols.OptionType.Symbol && len(args) == 1:
		return symbols.NewOptionType(args[0])
	case fn == symbols.ListType.Symbol && len(args) == 1:
		return symbols.NewListType(args[0])
	case fn == symbols.MapType.Symbol && len(args) == 2:
		return symbols.NewMapType(args[0], args[1])
	case fn == symbols.Optional.Symbol && len(args) == 2:
		return symbols.NewOpt(args[0], args[1])
	case fn == symbols.StructType.Symbol:
		return symbols.NewStructType(args...)
	case fn == symbols.FunType.Symbol && len(args) >= 1:
		return symbols.NewFunType(args[0], args[1:]...)
	case fn == symbols.RelType.Symbol:
		return symbols.NewRelType(args...)
	case fn == symbols.UnionType.Symbol:
		return symbols.NewUnionType(args...)
	case fn == symbols.SingletonType.Symbol && len(args) == 1:
		if c, ok := args[0].(ast.Constant); ok {
			return symbols.NewSingletonType(c)
		}
	case fn == symbols.TaggedUnionType.Symbol && len(args) >= 1:
		if c, ok := args[0].(ast.Constant); ok {
			return symbols.NewTaggedUnionType(c, args[1:]...)
		}
	}
	if args == nil {
		args = []ast.BaseTerm{}
	}
	return ast.ApplyFn{Function: ast.FunctionSym{Symbol: fn, Arity: len(args)}, Args: args}
}

func (b Bound) build(start bool) ast.TemporalBound {
	switch b.K {
	case bTS:
		return ast.TemporalBound{Type: ast.TimestampBound, Timestamp: b.N}
	case bDur:
		return ast.TemporalBound{Type: ast.DurationTemporalBound, Timestamp: b.N}
	case bVar:
		return ast.NewVariableBound(ast.Variable{Symbol: b.V})
	case bNow:
		return ast.Now()
	case bInf:
		if start {
			return ast.NegativeInfinity()
		}
		return ast.PositiveInfinity()
	}
	panic("c09: unknown bound kind " + b.K)
}

func (iv Ival) build() *ast.Interval {
	i := ast.NewInterval(iv.S.build(true), iv.E.build(false))
	return &i
}

func (l Lit) atom() ast.Atom {
	args := make([]ast.BaseTerm, len(l.Args))
	for i, a := range l.Args {
		args[i] = a.build()
	}
	return ast.NewAtom(l.Pred, args...)
}

func (l Lit) build() ast.Term {
	switch l.K {
	case lAtom:
		return l.atom()
	case lNeg:
		return ast.NegAtom{Atom: l.atom()}
	case lEq:
		return ast.Eq{Left: l.L.build(), Right: l.R.build()}
	case lIneq:
		return ast.Ineq{Left: l.L.build(), Right: l.R.build()}
	case lTemp:
		tl := ast.TemporalLiteral{Literal: l.atom()}
		if l.Op != nil {
			tl.Operator = &ast.TemporalOperator{Type: ast.TemporalOperatorType(l.Op.T),
				Interval: ast.NewInterval(l.Op.S.build(true), l.Op.E.build(false))}
		}
		if l.At != nil {
			tl.Interval = l.At.build()
		}
		return tl
	}
	panic("c09: unknown literal kind " + l.K)
}

func (t *Trans) build() *ast.Transform {
	if t == nil {
		return nil
	}
	res := &ast.Transform{}
	for _, s := range t.Stmts {
		st := ast.TransformStmt{Fn: s.Fn.build().(ast.ApplyFn)}
		if s.Var != "" {
			st.Var = &ast.Variable{Symbol: s.Var}
		}
		res.Statements = append(res.Statements, st)
	}
	res.Next = t.Next.build()
	return res
}

func (c Clause) build() ast.Clause {
	res := ast.Clause{Head: c.Head.atom()}
	if c.HeadTime != nil {
		res.HeadTime = c.HeadTime.build()
	}
	for _, l := range c.Body {
		res.Premises = append(res.Premises, l.build())
	}
	if len(c.Body) > 0 {
		res.Transform = c.Tr.build()
	}
	return res
}

// ---------------------------------------------------------------------------------------------
// Own structural comparer: nil when got (from the parser) is the same tree as want.

func cmpBase(path string, want, got ast.BaseTerm) error {
	switch w := want.(type) {
	case ast.Constant:
		g := got
		if fn, ok := got.(ast.ApplyFn); ok {
			e, err := functional.EvalExpr(fn, ast.SubstMap{})
			if err != nil {
				return fmt.Errorf("%s: want the constant %s, got the expression %v which does not evaluate: %v", path, val.KeyOf(w), got, err)
			}
			g = e
		}
		gc, ok := g.(ast.Constant)
		if !ok {
			return fmt.Errorf("%s: want the constant %s, got %T %v", path, val.KeyOf(w), got, got)
		}
		vw, vg := val.From(w), val.From(gc)
		if kw, kg := vw.Key(), vg.Key(); kw != kg {
			return fmt.Errorf("%s: want the constant %s, got %s", path, kw, kg)
		}
		if ow, og := orderedKey(vw), orderedKey(vg); ow != og {
			return fmt.Errorf("%s: the constant comes back with the entries of a map/struct in another order (not structurally equal): built %s, parsed and evaluated %s", path, ow, og)
		}
		return nil
	case ast.Variable:
		g, ok := got.(ast.Variable)
		if !ok || g.Symbol != w.Symbol {
			return fmt.Errorf("%s: want the variable %s, got %T %v", path, w.Symbol, got, got)
		}
		return nil
	case ast.ApplyFn:
		g, ok := got.(ast.ApplyFn)
		if !ok {
			return fmt.Errorf("%s: want the application %v, got %T %v", path, w, got, got)
		}
		if g.Function.Symbol != w.Function.Symbol || len(g.Args) != len(w.Args) {
			return fmt.Errorf("%s: want %s with %d arguments, got %s with %d", path, w.Function.Symbol, len(w.Args), g.Function.Symbol, len(g.Args))
		}
		for i := range w.Args {
			if err := cmpBase(fmt.Sprintf("%s.%s#%d", path, w.Function.Symbol, i), w.Args[i], g.Args[i]); err != nil {
				return err
			}
		}
		return nil
	}
	return fmt.Errorf("%s: harness: unexpected base term %T", path, want)
}

// orderedKey is val.Key with the entries of maps and structs in the order given (val.From: the order
// in which MapValues/StructValues yield them) instead of sorted.
func orderedKey(v val.V) string {
	var sb strings.Builder
	var rec func(v val.V)
	rec = func(v val.V) {
		switch v.T {
		case val.Pair, val.List:
			sb.WriteString(v.T + "(")
			for _, e := range v.E {
				rec(e)
				sb.WriteString(",")
			}
			sb.WriteString(")")
		case val.Map, val.Struct:
			sb.WriteString(v.T + "{")
			for _, kv := range v.KV {
				rec(kv[0])
				sb.WriteString("=>")
				rec(kv[1])
				sb.WriteString(";")
			}
			sb.WriteString("}")
		default:
			sb.WriteString(v.Key())
		}
	}
	rec(v)
	return sb.String()
}

func cmpAtom(path string, want, got ast.Atom) error {
	if want.Predicate.Symbol != got.Predicate.Symbol || len(want.Args) != len(got.Args) || got.Predicate.Arity != len(got.Args) {
		return fmt.Errorf("%s: want predicate %s with %d arguments, got %s/%d with %d", path, want.Predicate.Symbol, len(want.Args), got.Predicate.Symbol, got.Predicate.Arity, len(got.Args))
	}
	for i := range want.Args {
		if err := cmpBase(fmt.Sprintf("%s.%s#%d", path, want.Predicate.Symbol, i), want.Args[i], got.Args[i]); err != nil {
			return err
		}
	}
	return nil
}

func boundText(b ast.TemporalBound) string {
	switch b.Type {
	case ast.TimestampBound:
		return fmt.Sprintf("timestamp(%dns)", b.Timestamp)
	case ast.DurationTemporalBound:
		return fmt.Sprintf("duration(%dns)", b.Timestamp)
	case ast.VariableBound:
		return "variable(" + b.Variable.Symbol + ")"
	case ast.NegativeInfinityBound:
		return "-inf"
	case ast.PositiveInfinityBound:
		return "+inf"
	case ast.NowBound:
		return "now"
	}
	return fmt.Sprintf("bound-type-%d", b.Type)
}

func cmpBound(path string, want, got ast.TemporalBound) error {
	if boundText(want) != boundText(got) {
		return fmt.Errorf("%s: want %s, got %s", path, boundText(want), boundText(got))
	}
	return nil
}

func cmpInterval(path string, want, got ast.Interval) error {
	if err := cmpBound(path+".start", want.Start, got.Start); err != nil {
		return err
	}
	return cmpBound(path+".end", want.End, got.End)
}

func cmpTerm(path string, want, got ast.Term) error {
	switch w := want.(type) {
	case ast.Atom:
		g, ok := got.(ast.Atom)
		if !ok {
			return fmt.Errorf("%s: want the atom %v, got %T %v", path, w, got, got)
		}
		return cmpAtom(path, w, g)
	case ast.NegAtom:
		g, ok := got.(ast.NegAtom)
		if !ok {
			return fmt.Errorf("%s: want the negated atom %v, got %T %v", path, w, got, got)
		}
		return cmpAtom(path+".neg", w.Atom, g.Atom)
	case ast.Eq:
		g, ok := got.(ast.Eq)
		if !ok {
			return fmt.Errorf("%s: want the equality %v, got %T %v", path, w, got, got)
		}
		if err := cmpBase(path+".eq.left", w.Left, g.Left); err != nil {
			return err
		}
		return cmpBase(path+".eq.right", w.Right, g.Right)
	case ast.Ineq:
		g, ok := got.(ast.Ineq)
		if !ok {
			return fmt.Errorf("%s: want the inequality %v, got %T %v", path, w, got, got)
		}
		if err := cmpBase(path+".ineq.left", w.Left, g.Left); err != nil {
			return err
		}
		return cmpBase(path+".ineq.right", w.Right, g.Right)
	case ast.TemporalLiteral:
		g, ok := got.(ast.TemporalLiteral)
		if !ok {
			return fmt.Errorf("%s: want a temporal literal (operator %v, annotation %v), got %T %v", path, w.Operator != nil, w.Interval != nil, got, got)
		}
		if err := cmpTerm(path+".literal", w.Literal, g.Literal); err != nil {
			return err
		}
		if (w.Operator == nil) != (g.Operator == nil) {
			return fmt.Errorf("%s: operator present: want %v, got %v", path, w.Operator != nil, g.Operator != nil)
		}
		if w.Operator != nil {
			if w.Operator.Type != g.Operator.Type {
				return fmt.Errorf("%s: want operator type %d, got %d", path, w.Operator.Type, g.Operator.Type)
			}
			if err := cmpInterval(path+".operator", w.Operator.Interval, g.Operator.Interval); err != nil {
				return err
			}
		}
		if (w.Interval == nil) != (g.Interval == nil) {
			return fmt.Errorf("%s: annotation present: want %v, got %v", path, w.Interval != nil, g.Interval != nil)
		}
		if w.Interval != nil {
			return cmpInterval(path+".annotation", *w.Interval, *g.Interval)
		}
		return nil
	}
	return fmt.Errorf("%s: harness: unexpected term %T", path, want)
}

func cmpTransform(path string, want, got *ast.Transform) error {
	if (want == nil) != (got == nil) {
		return fmt.Errorf("%s: transform present: want %v, got %v", path, want != nil, got != nil)
	}
	if want == nil {
		return nil
	}
	if len(want.Statements) != len(got.Statements) {
		return fmt.Errorf("%s: want %d statements, got %d", path, len(want.Statements), len(got.Statements))
	}
	for i, ws := range want.Statements {
		gs := got.Statements[i]
		p := fmt.Sprintf("%s.stmt#%d", path, i)
		if (ws.Var == nil) != (gs.Var == nil) {
			return fmt.Errorf("%s: let-statement: want %v, got %v", p, ws.Var != nil, gs.Var != nil)
		}
		if ws.Var != nil && ws.Var.Symbol != gs.Var.Symbol {
			return fmt.Errorf("%s: want let %s, got let %s", p, ws.Var.Symbol, gs.Var.Symbol)
		}
		if err := cmpBase(p, ws.Fn, gs.Fn); err != nil {
			return err
		}
	}
	return cmpTransform(path+".next", want.Next, got.Next)
}

func cmpClause(want, got ast.Clause) error {
	if err := cmpAtom("head", want.Head, got.Head); err != nil {
		return err
	}
	wt, gt := ast.EternalInterval(), ast.EternalInterval() // a missing head annotation means eternal
	if want.HeadTime != nil {
		wt = *want.HeadTime
	}
	if got.HeadTime != nil {
		gt = *got.HeadTime
	}
	if err := cmpInterval("head-annotation", wt, gt); err != nil {
		return err
	}
	if len(want.Premises) != len(got.Premises) {
		return fmt.Errorf("body: want %d premises, got %d", len(want.Premises), len(got.Premises))
	}
	for i := range want.Premises {
		if err := cmpTerm(fmt.Sprintf("premise#%d", i), want.Premises[i], got.Premises[i]); err != nil {
			return err
		}
	}
	return cmpTransform("transform", want.Transform, got.Transform)
}

// ---------------------------------------------------------------------------------------------
// The oracle.

type verdict struct {
	nontrivial bool
	labels     []string
}

func clip(s string) string {
	if len(s) > 300 {
		return s[:300] + "…"
	}
	return s
}

// roundTrip prints and re-parses the case and returns the printed text and the first difference.
// A panic of the code under test is reported as a difference.
func roundTrip(c Case, ft features) (printed string, err error) {
	defer func() {
		if p := recover(); p != nil {
			err = fmt.Errorf("panic: %v", p)
		}
	}()
	perr := func(e error) error { return fmt.Errorf("does not parse: %v", strings.TrimSpace(e.Error())) }
	switch c.Kind {
	case kConst:
		ft.constant(*c.Const, 0)
		want := c.Const.Build()
		printed = want.String()
		got, e := parse.BaseTerm(printed)
		if e != nil {
			return printed, perr(e)
		}
		return printed, cmpBase("constant", want, got)
	case kAtom:
		ft.lit(*c.Atom)
		want := c.Atom.atom()
		printed = want.String()
		got, e := parse.Atom(printed)
		if e != nil {
			return printed, perr(e)
		}
		return printed, cmpAtom("atom", want, got)
	case kType:
		ft.bt(*c.Type, 0)
		want := c.Type.build()
		printed = want.String()
		got, e := parse.BaseTerm(printed)
		if e != nil {
			return printed, perr(e)
		}
		return printed, cmpBase("type", want, got)
	case kClause:
		ft.clause(*c.Clause)
		want := c.Clause.build()
		printed = want.String()
		got, e := parse.Clause(printed)
		if e != nil {
			return printed, perr(e)
		}
		return printed, cmpClause(want, got)
	}
	return "", fmt.Errorf("harness: unknown case kind %q", c.Kind)
}

// check judges one case. A case that holds a map/struct with hash-equal keys makes the trip `repeats`
// times: the order in which ast.Map receives its pairs comes from Go's map iteration, on the side
// of the constructor as well as on the side of the evaluated fn:map expression, and is random per build.
func check(run *stats.Run, f stats.Failer, c Case, repeats int) verdict {
	ft := features{}
	if c.TZOffsetMin != 0 {
		ast.SetDefaultTimezone(time.FixedZone("case", c.TZOffsetMin*60))
		defer ast.SetDefaultTimezone(time.UTC)
		ft["default-timezone-set"] = true
	}
	printed, err := roundTrip(c, ft)
	if ft["map-with-hash-equal-keys"] {
		for i := 1; i < repeats && err == nil; i++ {
			printed, err = roundTrip(c, features{})
		}
	}
	if err != nil {
		run.Failf(f, "print→parse does not return the same %s: printed %q; %v", c.Kind, clip(printed), err)
	}
	v := verdict{labels: []string{"kind:" + c.Kind}}
	ft.depths(c)
	for l := range ft {
		v.labels = append(v.labels, l)
	}
	// NT: string/bytes needing an escape, integral or >= 1e21 float, nesting >= 2, clause with a temporal part.
	v.nontrivial = ft["escape"] || ft["float-integral"] || ft["float>=1e21"] || ft["nesting>=2"] || ft["temporal"]
	return v
}

// features are the labels of a case (pure function of the case).
type features map[string]bool

func (ft features) constant(v val.V, depth int) {
	if depth >= 2 {
		ft["nesting>=2"] = true
	}
	switch v.T {
	case val.Str:
		for _, r := range v.S {
			switch {
			case r == '\r':
				ft["escape"], ft["string-CR"] = true, true
			case r == '"' || r == '\'' || r == '\\' || r == '\n' || r == '\t' || r >= 0x80:
				ft["escape"] = true
			case r < 0x20 || r == 0x7f:
				ft["string-raw-control"] = true
			}
		}
	case val.Bytes:
		for _, b := range v.RawBytes() {
			if b == '"' || b == '\'' || b == '\\' || b == '\n' || b == '\t' || b >= 0x80 {
				ft["escape"] = true
			}
		}
	case val.Float:
		f := v.Flt()
		if f == math.Trunc(f) {
			ft["float-integral"] = true
		}
		if math.Abs(f) >= 1e21 {
			ft["float>=1e21"] = true
		}
	case val.Time:
		ft["time-constant"] = true
	case val.Dur:
		ft["duration-constant"] = true
	case val.List, val.Map:
		var first *val.V
		if v.T == val.List && len(v.E) > 0 {
			first = &v.E[0]
		}
		if v.T == val.Map && len(v.KV) > 0 {
			first = &v.KV[0][0] // the printed order may differ; statistics only
		}
		if first != nil && (first.T == val.Num && first.Int() < 0 || first.T == val.Float && math.Signbit(first.Flt())) {
			ft["bracket-then-minus"] = true
		}
	}
	if len(v.KV) >= 2 {
		// Two keys with equal library Hash() (statistics and effort only, no influence on the verdict).
		seen := map[uint64]val.V{}
		for _, kv := range v.KV {
			h := kv[0].Build().Hash()
			if o, ok := seen[h]; ok {
				ft["map-with-hash-equal-keys"] = true
				if o.T == kv[0].T && len(o.E)+len(o.KV)+len(kv[0].E)+len(kv[0].KV) > 0 {
					ft["hash-equal-keys:compound-same-shape"] = true
				} else if o.T == kv[0].T {
					ft["hash-equal-keys:scalar-same-type"] = true
				} else {
					ft["hash-equal-keys:different-types"] = true
				}
			}
			seen[h] = kv[0]
		}
	}
	for _, e := range v.E {
		ft.constant(e, depth+1)
	}
	for _, kv := range v.KV {
		ft.constant(kv[0], depth+1)
		ft.constant(kv[1], depth+1)
	}
}

func (ft features) bt(b BT, depth int) {
	switch {
	case b.C != nil:
		ft.constant(*b.C, depth)
	case b.Fn != "":
		if depth >= 2 {
			ft["nesting>=2"] = true
		}
		if strings.HasPrefix(b.Fn, "fn:") && len(b.Fn) > 3 && b.Fn[3] >= 'A' && b.Fn[3] <= 'Z' {
			ft["typector:"+b.Fn] = true
		}
		for _, a := range b.Args {
			ft.bt(a, depth+1)
		}
	}
}

// fnNesting is the number of function applications on the longest path of b; constDepth the deepest
// constant inside b.
func fnNesting(b BT) (fns, constDepth int) {
	if b.C != nil {
		return 0, b.C.Depth()
	}
	if b.Fn == "" {
		return 0, 0
	}
	for _, a := range b.Args {
		f, c := fnNesting(a)
		fns, constDepth = max(fns, f), max(constDepth, c)
	}
	return fns + 1, constDepth
}

func bucket(prefix string, n, lo, hi int) string {
	if n < lo {
		return ""
	}
	if n >= hi {
		return fmt.Sprintf("%s>=%d", prefix, hi)
	}
	return fmt.Sprintf("%s%d", prefix, n)
}

// depths labels how deep the linked / recursive parts of the case go: transform stages, nested function
// applications, nested type constructors, nested constants.
func (ft features) depths(c Case) {
	fns, cd, stages, stmts := 0, 0, 0, 0
	see := func(b BT) {
		f, d := fnNesting(b)
		fns, cd = max(fns, f), max(cd, d)
	}
	lit := func(l Lit) {
		for _, a := range l.Args {
			see(a)
		}
		if l.L != nil {
			see(*l.L)
			see(*l.R)
		}
	}
	switch c.Kind {
	case kConst:
		cd = c.Const.Depth()
	case kAtom:
		lit(*c.Atom)
	case kType:
		f, d := fnNesting(*c.Type)
		cd = d
		if l := bucket("type-depth:", f, 1, 6); l != "" {
			ft[l] = true
		}
	case kClause:
		lit(c.Clause.Head)
		for _, l := range c.Clause.Body {
			lit(l)
		}
		if len(c.Clause.Body) > 0 {
			for t := c.Clause.Tr; t != nil; t = t.Next {
				stages++
				stmts = max(stmts, len(t.Stmts))
				for _, st := range t.Stmts {
					see(st.Fn)
				}
			}
		}
	}
	for _, l := range []string{bucket("transform-stages:", stages, 1, 5), bucket("transform-statements-per-stage:", stmts, 2, 4),
		bucket("fn-nesting:", fns, 2, 6), bucket("const-depth:", cd, 2, 7)} {
		if l != "" {
			ft[l] = true
		}
	}
	if stages >= 2 || fns >= 2 || cd >= 2 {
		ft["nesting>=2"] = true
	}
}

func (ft features) bound(b Bound) {
	switch b.K {
	case bTS:
		ft["bound-timestamp"] = true
		if b.N%1000000000 != 0 {
			ft["bound-timestamp-subsecond"] = true
		}
	case bDur:
		ft["bound-duration"] = true
	case bVar:
		ft["bound-variable"] = true
	case bNow:
		ft["bound-now"] = true
	case bInf:
		ft["bound-unbounded"] = true
	}
}

func (ft features) lit(l Lit) {
	for _, a := range l.Args {
		ft.bt(a, 1)
	}
	switch l.K {
	case lNeg:
		ft["negation"] = true
	case lEq, lIneq:
		ft[l.K] = true
		ft.bt(*l.L, 0)
		ft.bt(*l.R, 0)
	case lAtom:
		switch l.Pred {
		case ":lt", ":le", ":gt", ":ge":
			ft["comparison"] = true
		}
	case lTemp:
		ft["temporal"] = true
		if l.Op != nil {
			ft[fmt.Sprintf("operator:%d", l.Op.T)] = true
			ft.bound(l.Op.S)
			ft.bound(l.Op.E)
		}
		if l.At != nil {
			ft["body-annotation"] = true
			if l.At.S.K == bInf && l.At.E.K == bInf {
				ft["body-annotation-eternal"] = true
			}
			ft.bound(l.At.S)
			ft.bound(l.At.E)
		}
	}
}

func (ft features) clause(c Clause) {
	ft.lit(c.Head)
	if c.HeadTime != nil {
		ft["temporal"], ft["head-annotation"] = true, true
		ft.bound(c.HeadTime.S)
		ft.bound(c.HeadTime.E)
	}
	if len(c.Body) == 0 {
		ft["fact"] = true
		return
	}
	for _, l := range c.Body {
		ft.lit(l)
	}
	if last := c.Body[len(c.Body)-1]; c.Tr == nil && (last.K == lEq || last.K == lIneq) && last.R.C != nil && last.R.C.T == val.Name {
		ft["ends-with-name"] = true
	}
	for t, first := c.Tr, true; t != nil; t, first = t.Next, false {
		if t.Stmts[0].Var == "" {
			ft["do-transform"] = true
		} else {
			ft["let-transform"] = true
		}
		if !first {
			ft["chained-transform"] = true
		}
		for _, s := range t.Stmts {
			ft.bt(s.Fn, 0)
		}
	}
}

// ---------------------------------------------------------------------------------------------
// Generators.

var (
	full      = val.Options{MaxDepth: 4}
	argConsts = val.Options{MaxDepth: 3}
	variables = []string{"X", "Y", "Z", "Xs", "Foo1", "T", "_"}
	boundVars = []string{"S", "E", "T", "T1", "Xs"}
	predNames = []string{"p", "q", "r", "foo", "foo.bar", "a:b", "p_1", "bar_baz", "e2"}
	builtins  = []string{":lt", ":le", ":gt", ":ge", ":match_pair", ":list:member", ":string:starts_with", ":within_distance"}
	funNames  = []string{"fn:plus", "fn:minus", "fn:list", "fn:pair", "fn:map", "fn:struct", "fn:list:get", "fn:cons", "fn:some_fn", "fn:tuple", "fn:string:concat"}
	reducers  = []string{"fn:count", "fn:sum", "fn:max", "fn:collect", "fn:collect_distinct", "fn:avg"}
	baseTypes = []string{"/any", "/bot", "/number", "/float64", "/string", "/bytes", "/name", "/time", "/duration", "/foo", "/foo/bar", "/true"}
)

// tricky are values whose printed form has been wrong before or sits next to a lexer rule.
var tricky = []val.V{
	val.S("a\rb"), val.S("\r\n"), val.S("\r"), val.S("\\r"), val.S("\x00\x7f"), val.S("'\"`"), val.B([]byte("\r\n\"'\\")),
	val.F(1), val.F(0), val.F(math.Copysign(0, -1)), val.F(-3), val.F(1e21), val.F(1e22), val.F(-1e300), val.F(1 << 53), val.F(5e-324),
	val.L(val.I(-1), val.I(2)), val.L(val.F(-1.5)), val.L(val.L(val.I(-7))), val.M([2]val.V{val.I(-1), val.S("x")}), val.M([2]val.V{val.F(-0.5), val.L(val.I(-2))}),
	val.T(1704103200500000000), val.T(-1), val.D(1), val.D(-90000000000), val.N("/a."), val.N("/1d"), val.N("/2024-01-01"), val.N("/x-"), val.N("/%41"),
	val.St([2]val.V{val.N("/a"), val.L(val.I(-1))}), val.P(val.I(-1), val.F(-2)), val.L(), val.M(), val.St(),
}

// deepen wraps v into k more levels; the spine runs through list elements, pair components, map keys
// (structured keys), map values and struct fields.
func deepen(t *rapid.T, v val.V, k int) val.V {
	sib := func() val.V { return val.GenScalar(val.Options{}).Draw(t, "sibling") }
	for i := 0; i < k; i++ {
		switch rapid.IntRange(0, 7).Draw(t, "spine") {
		case 0:
			v = val.L(v)
		case 1:
			v = val.L(sib(), v, sib())
		case 2:
			v = val.P(v, sib())
		case 3:
			v = val.P(sib(), v)
		case 4:
			v = val.M([2]val.V{v, sib()})
		case 5:
			v = val.M([2]val.V{sib(), v})
		case 6: // two entries, one with a structured key
			other := val.S("k")
			if other.Key() == v.Key() {
				other = val.I(0)
			}
			v = val.M([2]val.V{v, sib()}, [2]val.V{other, v})
		default:
			v = val.St([2]val.V{val.N(rapid.SampledFrom([]string{"/a", "/b", "/x/y"}).Draw(t, "field")), v})
		}
	}
	return v
}

func genDeepValue(t *rapid.T) val.V {
	var v val.V
	if rapid.Bool().Draw(t, "trickyLeaf") {
		v = rapid.SampledFrom(tricky).Draw(t, "tricky")
	} else {
		v = val.Gen(val.Options{MaxDepth: 1}).Draw(t, "deepleaf")
	}
	return deepen(t, v, rapid.IntRange(2, 5).Draw(t, "levels"))
}

// genHashEqual draws 2-3 pairwise distinct values with equal library Hash(): members of one group of
// val.Colliders(), or a value next to the number / duration / time / float whose NumValue is its
// hash (Constant.Hash() is NumValue). In two of three cases all of them are then wrapped 1-2 times
// into the same compound shape with the same siblings: the hash of a pair, list, map or struct is
// computed from the hashes of its parts only, so the wrapped values are hash-equal values of ONE type
// whose Symbol is empty (for instance [] and [0], ["/a"] and [/a], fn:pair(5, 1) and fn:pair(5ns, 1)).
func genHashEqual(t *rapid.T) []val.V {
	var vs []val.V
	if rapid.Bool().Draw(t, "fromGroup") {
		g := rapid.SampledFrom(val.Colliders()).Draw(t, "kgroup")
		perm := rapid.Permutation(g).Draw(t, "kperm")
		n := 2
		if len(perm) > 2 && rapid.Bool().Draw(t, "three") {
			n = 3
		}
		vs = append(vs, perm[:n]...)
	} else {
		k := val.Gen(val.Options{MaxDepth: 1}).Draw(t, "k")
		h := int64(k.Build().Hash())
		twins := []val.V{val.I(h), val.D(h), val.T(h)}
		if f := math.Float64frombits(uint64(h)); !math.IsNaN(f) && !math.IsInf(f, 0) {
			twins = append(twins, val.F(f))
		}
		perm := rapid.Permutation(twins).Draw(t, "twins")
		vs = []val.V{k}
		for _, w := range perm {
			if len(vs) < 3 && w.Key() != k.Key() && (len(vs) < 2 || rapid.Bool().Draw(t, "third")) {
				vs = append(vs, w)
			}
		}
	}
	if rapid.IntRange(0, 2).Draw(t, "wrapKeys") == 0 {
		return vs
	}
	for lv := rapid.IntRange(1, 2).Draw(t, "wrapLevels"); lv > 0; lv-- {
		shape := rapid.IntRange(0, 7).Draw(t, "wrapShape")
		sib := val.GenScalar(val.Options{}).Draw(t, "wrapSibling")
		for i, v := range vs {
			switch shape {
			case 0:
				vs[i] = val.L(v)
			case 1:
				vs[i] = val.L(sib, v)
			case 2:
				vs[i] = val.L(v, sib)
			case 3:
				vs[i] = val.P(v, sib)
			case 4:
				vs[i] = val.P(sib, v)
			case 5:
				vs[i] = val.M([2]val.V{sib, v})
			case 6:
				vs[i] = val.M([2]val.V{v, sib})
			default:
				vs[i] = val.St([2]val.V{val.N("/f"), v})
			}
		}
	}
	return vs
}

// genCollidingMap draws a map with at least two keys of equal Hash() (genHashEqual), optionally a
// further unrelated key, bare or as a part of a list, pair, map value or struct field.
func genCollidingMap(t *rapid.T) val.V {
	keys := genHashEqual(t)
	if rapid.Bool().Draw(t, "extraKey") {
		keys = append(keys, val.GenScalar(val.Options{}).Draw(t, "xk"))
	}
	keys = rapid.Permutation(keys).Draw(t, "supplyOrder")
	m := val.V{T: val.Map}
	seen := map[string]bool{}
	for _, k := range keys {
		if seen[k.Key()] || k.HasDupKeys() {
			continue
		}
		seen[k.Key()] = true
		m.KV = append(m.KV, [2]val.V{k, val.Gen(val.Options{MaxDepth: 1}).Draw(t, "mv")})
	}
	switch rapid.IntRange(0, 7).Draw(t, "mapAt") {
	case 0:
		return val.L(m, val.I(1))
	case 1:
		return val.P(val.S("m"), m)
	case 2:
		return val.M([2]val.V{val.N("/k"), m})
	case 3:
		return val.St([2]val.V{val.N("/m"), m})
	}
	return m
}

func genValue(t *rapid.T, o val.Options) val.V {
	switch k := rapid.IntRange(0, 13).Draw(t, "value"); {
	case k == 13:
		return genCollidingMap(t)
	case k == 12:
		return genDeepValue(t)
	case k <= 1:
		return rapid.SampledFrom(tricky).Draw(t, "tricky")
	case k <= 7:
		return val.GenScalar(o).Draw(t, "sc")
	default:
		return val.Gen(o).Draw(t, "const")
	}
}

func genConst(t *rapid.T, o val.Options) BT {
	v := genValue(t, o)
	return BT{C: &v}
}

func genNameConst(t *rapid.T) BT {
	v := val.N(val.GenName(val.Options{}).Draw(t, "name"))
	return BT{C: &v}
}

func genVar(t *rapid.T) BT { return BT{Var: rapid.SampledFrom(variables).Draw(t, "var")} }

func genBT(t *rapid.T, depth int) BT {
	switch k := rapid.IntRange(0, 10).Draw(t, "bt"); {
	case k <= 3:
		return genVar(t)
	case k <= 7 || depth <= 0:
		return genConst(t, argConsts)
	case k == 10 && depth >= 2:
		return genFnSpine(t, rapid.IntRange(2, 5).Draw(t, "fnlevels"))
	default:
		return genFn(t, depth-1)
	}
}

// genFnSpine nests exactly k function applications, the nested one at a random argument position.
func genFnSpine(t *rapid.T, k int) BT {
	b := BT{Fn: rapid.SampledFrom(funNames).Draw(t, "fn")}
	var inner BT
	if k <= 1 {
		inner = genConst(t, argConsts)
	} else {
		inner = genFnSpine(t, k-1)
	}
	before := rapid.IntRange(0, 2).Draw(t, "before")
	after := rapid.IntRange(0, 1).Draw(t, "after")
	for i := 0; i < before; i++ {
		b.Args = append(b.Args, genBT(t, 0))
	}
	b.Args = append(b.Args, inner)
	for i := 0; i < after; i++ {
		b.Args = append(b.Args, genBT(t, 0))
	}
	return b
}

func genFn(t *rapid.T, depth int) BT {
	b := BT{Fn: rapid.SampledFrom(funNames).Draw(t, "fn")}
	n := rapid.IntRange(0, 3).Draw(t, "fnargs")
	for i := 0; i < n; i++ {
		b.Args = append(b.Args, genBT(t, depth))
	}
	return b
}

func genAtom(t *rapid.T, pred string, kind string) Lit {
	l := Lit{K: kind, Pred: pred}
	n := rapid.IntRange(0, 3).Draw(t, "arity")
	for i := 0; i < n; i++ {
		l.Args = append(l.Args, genBT(t, 3))
	}
	return l
}

func genPred(t *rapid.T) string { return rapid.SampledFrom(predNames).Draw(t, "pred") }

// genDurNanos: non-negative multiples of one millisecond.
func genDurNanos(t *rapid.T) int64 {
	const ms = 1000000
	switch rapid.IntRange(0, 2).Draw(t, "durmode") {
	case 0:
		return ms * rapid.SampledFrom([]int64{0, 1, 500, 1000, 1500, 60000, 90000, 3600000, 86400000, 7 * 86400000, 36 * 3600000, 999}).Draw(t, "stockdur")
	case 1:
		unit := rapid.SampledFrom([]int64{1, 1000, 60000, 3600000, 86400000}).Draw(t, "unit")
		return ms * unit * rapid.Int64Range(0, 400).Draw(t, "count")
	default:
		return ms * rapid.Int64Range(0, 9000000000000).Draw(t, "anyms")
	}
}

func genTS(t *rapid.T) int64 {
	if rapid.Bool().Draw(t, "wholeSecond") {
		return rapid.Int64Range(-2000000000, 4102444800).Draw(t, "sec") * 1000000000
	}
	return val.GenTimeNanos().Draw(t, "ts")
}

// genBound: annotation = true allows "_" (unbounded); operators never carry an infinity bound.
func genBound(t *rapid.T, annotation bool, durWeight int) Bound {
	k := rapid.IntRange(0, 9+durWeight).Draw(t, "bound")
	switch {
	case k >= 10:
		return Bound{K: bDur, N: genDurNanos(t)}
	case k <= 2:
		return Bound{K: bTS, N: genTS(t)}
	case k <= 5:
		return Bound{K: bVar, V: rapid.SampledFrom(boundVars).Draw(t, "bvar")}
	case k <= 6:
		return Bound{K: bNow}
	case k <= 8:
		if annotation {
			return Bound{K: bInf}
		}
		return Bound{K: bVar, V: "_"}
	default:
		return Bound{K: bDur, N: genDurNanos(t)}
	}
}

func genIval(t *rapid.T) *Ival {
	if rapid.IntRange(0, 9).Draw(t, "eternal") == 0 {
		return &Ival{S: Bound{K: bInf}, E: Bound{K: bInf}} // @[_] / @[_, _]
	}
	s := genBound(t, true, 0)
	if rapid.IntRange(0, 3).Draw(t, "point") == 0 && s.K != bInf && s.K != bDur {
		return &Ival{S: s, E: s}
	}
	return &Ival{S: s, E: genBound(t, true, 0)}
}

func genTemporal(t *rapid.T) Lit {
	l := genAtom(t, genPred(t), lTemp)
	mode := rapid.IntRange(0, 2).Draw(t, "tmode") // 0 operator, 1 annotation, 2 both
	if mode != 1 {
		l.Op = &Oper{T: rapid.IntRange(0, 3).Draw(t, "optype"), S: genBound(t, false, 20), E: genBound(t, false, 20)}
	}
	if mode != 0 {
		l.At = genIval(t)
	}
	return l
}

func genLit(t *rapid.T) Lit {
	switch k := rapid.IntRange(0, 19).Draw(t, "lit"); {
	case k <= 5:
		return genAtom(t, genPred(t), lAtom)
	case k <= 7:
		return genAtom(t, genPred(t), lNeg)
	case k <= 9:
		l, r := genBT(t, 2), genBT(t, 2)
		if rapid.IntRange(0, 3).Draw(t, "nameRight") == 0 {
			r = genNameConst(t)
		}
		return Lit{K: lEq, L: &l, R: &r}
	case k <= 11:
		l, r := genBT(t, 1), genBT(t, 1)
		if rapid.IntRange(0, 3).Draw(t, "nameRight") == 0 {
			r = genNameConst(t)
		}
		return Lit{K: lIneq, L: &l, R: &r}
	case k <= 13:
		return Lit{K: lAtom, Pred: rapid.SampledFrom(builtins[:4]).Draw(t, "cmp"), Args: []BT{genBT(t, 1), genBT(t, 1)}}
	case k == 14:
		return genAtom(t, rapid.SampledFrom(builtins).Draw(t, "builtin"), lAtom)
	default:
		return genTemporal(t)
	}
}

// genStage draws one transform: "do fn:group_by(..), let .." or "let .., let ..".
func genStage(t *rapid.T) *Trans {
	tr := &Trans{}
	if rapid.Bool().Draw(t, "do") {
		do := BT{Fn: "fn:group_by"}
		n := rapid.IntRange(0, 2).Draw(t, "keys")
		for i := 0; i < n; i++ {
			do.Args = append(do.Args, genVar(t))
		}
		tr.Stmts = append(tr.Stmts, Stmt{Fn: do})
		n = rapid.IntRange(0, 3).Draw(t, "reducers")
		for i := 0; i < n; i++ {
			fn := BT{Fn: rapid.SampledFrom(reducers).Draw(t, "reducer")}
			if fn.Fn != "fn:count" {
				fn.Args = []BT{genVar(t)}
			}
			tr.Stmts = append(tr.Stmts, Stmt{Var: rapid.SampledFrom(variables[:6]).Draw(t, "letvar"), Fn: fn})
		}
	} else {
		n := rapid.IntRange(1, 3).Draw(t, "lets")
		for i := 0; i < n; i++ {
			fn := genFn(t, 2)
			if rapid.IntRange(0, 5).Draw(t, "deepfn") == 0 {
				fn = genFnSpine(t, rapid.IntRange(2, 5).Draw(t, "fnlevels"))
			}
			tr.Stmts = append(tr.Stmts, Stmt{Var: rapid.SampledFrom(variables[:6]).Draw(t, "letvar"), Fn: fn})
		}
	}
	return tr
}

// genTrans draws a chain of 1-4 transforms ("|> .. |> .. |> .."); the grammar allows a do- or a
// let-transform at every stage.
func genTrans(t *rapid.T) *Trans {
	stages := rapid.SampledFrom([]int{1, 1, 1, 1, 2, 2, 3, 3, 4, 4}).Draw(t, "stages")
	first := genStage(t)
	last := first
	for i := 1; i < stages; i++ {
		last.Next = genStage(t)
		last = last.Next
	}
	return first
}

func genClause(t *rapid.T) Clause {
	c := Clause{Head: genAtom(t, genPred(t), lAtom)}
	if rapid.IntRange(0, 9).Draw(t, "headtime") < 4 {
		c.HeadTime = genIval(t)
	}
	if rapid.IntRange(0, 9).Draw(t, "fact") < 2 {
		return c
	}
	n := rapid.IntRange(1, 4).Draw(t, "nbody")
	for i := 0; i < n; i++ {
		c.Body = append(c.Body, genLit(t))
	}
	if rapid.IntRange(0, 9).Draw(t, "transform") < 4 {
		c.Tr = genTrans(t)
	}
	return c
}

// genType draws a type expression over every constructor of package symbols.
func genType(t *rapid.T, depth int) BT {
	leaf := func() BT {
		if rapid.IntRange(0, 4).Draw(t, "tvar") == 0 {
			return BT{Var: rapid.SampledFrom([]string{"X", "T", "Key", "V1"}).Draw(t, "typevar")}
		}
		n := val.N(rapid.SampledFrom(baseTypes).Draw(t, "base"))
		return BT{C: &n}
	}
	if depth <= 0 || rapid.IntRange(0, 3).Draw(t, "tleaf") == 0 {
		return leaf()
	}
	sub := func() BT { return genType(t, depth-1) }
	many := func(lo, hi int) []BT {
		var r []BT
		n := rapid.IntRange(lo, hi).Draw(t, "ntypes")
		for i := 0; i < n; i++ {
			r = append(r, sub())
		}
		return r
	}
	label := func() BT {
		n := val.N(rapid.SampledFrom([]string{"/a", "/b", "/field_1", "/x/y", "/kind"}).Draw(t, "label"))
		return BT{C: &n}
	}
	structType := func() BT {
		b := BT{Fn: symbols.StructType.Symbol}
		n := rapid.IntRange(0, 3).Draw(t, "fields")
		for i := 0; i < n; i++ {
			if rapid.IntRange(0, 2).Draw(t, "opt") == 0 {
				b.Args = append(b.Args, BT{Fn: symbols.Optional.Symbol, Args: []BT{label(), sub()}})
			} else {
				b.Args = append(b.Args, label(), sub())
			}
		}
		return b
	}
	switch rapid.IntRange(0, 11).Draw(t, "ctor") {
	case 0:
		return BT{Fn: symbols.PairType.Symbol, Args: []BT{sub(), sub()}}
	case 1:
		return BT{Fn: symbols.TupleType.Symbol, Args: many(1, 4)}
	case 2:
		return BT{Fn: symbols.OptionType.Symbol, Args: []BT{sub()}}
	case 3:
		return BT{Fn: symbols.ListType.Symbol, Args: []BT{sub()}}
	case 4:
		return BT{Fn: symbols.MapType.Symbol, Args: []BT{sub(), sub()}}
	case 5:
		return structType()
	case 6:
		return BT{Fn: symbols.FunType.Symbol, Args: many(1, 3)}
	case 7:
		return BT{Fn: symbols.RelType.Symbol, Args: many(0, 3)}
	case 8:
		return BT{Fn: symbols.UnionType.Symbol, Args: many(0, 3)}
	case 9:
		return BT{Fn: symbols.SingletonType.Symbol, Args: []BT{genConst(t, argConsts)}}
	case 10:
		tu := BT{Fn: symbols.TaggedUnionType.Symbol, Args: []BT{label()}}
		n := rapid.IntRange(0, 2).Draw(t, "variants")
		for i := 0; i < n; i++ {
			tu.Args = append(tu.Args, label(), structType())
		}
		return tu
	default: // symbols.BoolType()
		tr, fa := val.N("/true"), val.N("/false")
		return BT{Fn: symbols.UnionType.Symbol, Args: []BT{
			{Fn: symbols.SingletonType.Symbol, Args: []BT{{C: &tr}}},
			{Fn: symbols.SingletonType.Symbol, Args: []BT{{C: &fa}}}}}
	}
}

// deepenType wraps the type expression b into k more constructors at varying argument positions.
func deepenType(t *rapid.T, b BT, k int) BT {
	leaf := func() BT {
		n := val.N(rapid.SampledFrom(baseTypes).Draw(t, "base"))
		return BT{C: &n}
	}
	label := func() BT {
		n := val.N(rapid.SampledFrom([]string{"/a", "/b", "/kind"}).Draw(t, "label"))
		return BT{C: &n}
	}
	for i := 0; i < k; i++ {
		switch rapid.IntRange(0, 12).Draw(t, "wrap") {
		case 0:
			b = BT{Fn: symbols.ListType.Symbol, Args: []BT{b}}
		case 1:
			b = BT{Fn: symbols.OptionType.Symbol, Args: []BT{b}}
		case 2:
			b = BT{Fn: symbols.MapType.Symbol, Args: []BT{leaf(), b}}
		case 3:
			b = BT{Fn: symbols.MapType.Symbol, Args: []BT{b, leaf()}}
		case 4:
			b = BT{Fn: symbols.PairType.Symbol, Args: []BT{b, leaf()}}
		case 5:
			b = BT{Fn: symbols.StructType.Symbol, Args: []BT{label(), leaf(), label(), b}}
		case 6:
			b = BT{Fn: symbols.StructType.Symbol, Args: []BT{{Fn: symbols.Optional.Symbol, Args: []BT{label(), b}}}}
		case 7:
			b = BT{Fn: symbols.FunType.Symbol, Args: []BT{b, leaf()}}
		case 8:
			b = BT{Fn: symbols.FunType.Symbol, Args: []BT{leaf(), leaf(), b}}
		case 9:
			b = BT{Fn: symbols.UnionType.Symbol, Args: []BT{leaf(), b}}
		case 10:
			b = BT{Fn: symbols.TupleType.Symbol, Args: []BT{leaf(), b, leaf()}}
		case 11:
			b = BT{Fn: symbols.RelType.Symbol, Args: []BT{b, leaf()}}
		default:
			b = BT{Fn: symbols.TaggedUnionType.Symbol, Args: []BT{label(), label(), {Fn: symbols.StructType.Symbol, Args: []BT{label(), b}}}}
		}
	}
	return b
}

func genCase(t *rapid.T) Case {
	switch k := rapid.IntRange(0, 11).Draw(t, "kind"); {
	case k <= 2:
		v := val.Gen(full).Draw(t, "const")
		switch rapid.IntRange(0, 7).Draw(t, "mixed") {
		case 0:
			v = genValue(t, full)
		case 1:
			v = genDeepValue(t)
		case 7:
			v = genCollidingMap(t)
		}
		return Case{Kind: kConst, Const: &v}
	case k == 3:
		a := genAtom(t, genPred(t), lAtom)
		return Case{Kind: kAtom, Atom: &a}
	case k == 4:
		ty := genType(t, 4)
		if rapid.IntRange(0, 2).Draw(t, "deeptype") == 0 {
			ty = deepenType(t, genType(t, 2), rapid.IntRange(2, 5).Draw(t, "typelevels"))
		}
		return Case{Kind: kType, Type: &ty}
	default:
		c := genClause(t)
		cs := Case{Kind: kClause, Clause: &c}
		if rapid.IntRange(0, 3).Draw(t, "tz") == 0 {
			cs.TZOffsetMin = rapid.SampledFrom([]int{120, -300, 330, -720, 840, 1}).Draw(t, "tzOffset")
		}
		return cs
	}
}

// ---------------------------------------------------------------------------------------------

func TestC09(t *testing.T) {
	run := stats.Begin("C09", "TestC09")
	defer run.Finish(t)
	rapid.Check(t, func(rt *rapid.T) {
		c := genCase(rt)
		run.Current(c)
		v := check(run, rt, c, 12)
		run.Case(v.nontrivial, c.hash(), v.labels...)
		if v.nontrivial {
			run.Sample(c.Kind, c)
		}
	})
}

func TestReplay(t *testing.T) {
	var c Case
	if !stats.LoadReplay(t, &c) {
		return
	}
	run := stats.Begin("C09", "TestReplay")
	// many repeats make the replay of a failure that depends on Go's map iteration order practically certain
	check(run, t, c, 100)
}
