// Package c06 checks property C06: every fact store behaves as a set of ground atoms.
//
// A case holds 2-4 live stores (a primary and 1-3 secondary ones; each a tree of store kinds with the facts
// its read-only layers hold), a small domain of constants and a history of operations on these stores,
// including merges between them in any direction. The history is interpreted against the real stores and
// against one reference set model per store, keyed by a canonical, structural key (val.V.Key); neither
// Hash() nor Equals() nor String() of the library take part in the oracle.
//
// WHEN the stores are read back is a dimension of the case (Case.Observe): after every step every live store
// is read back completely and compared with its model (a store that changes because another one was modified
// - shared state after a Merge - is noticed at once), or only at the generated "observe" steps, or only at
// the end of the history. Under the two sparse policies nothing but the generated steps touches the stores,
// so that state a store caches between two reads (a predicate listing, an index) goes stale unnoticed by
// the harness and is seen by the next consumer. An observation reads the store directly (full scan,
// ListPredicates), through factstore.GetAllFacts, or through a Merge into a fresh store that is then
// compared with the model of the source. The final comparison of every store always runs.
package c06

import (
	"encoding/json"
	"fmt"
	"sort"
	"strconv"
	"strings"
	"testing"
	"time"

	"codeberg.org/TauCeti/mangle-go/ast"
	"codeberg.org/TauCeti/mangle-go/factstore"
	"pgregory.net/rapid"
	"verif/stats"
	"verif/val"
)

// exclK08 is the named exclusion of known finding K08 (hash-keyed containers conflate distinct atoms with
// equal Atom.Hash()). While it is active, a step (or a set-up fact) is removed from the generated case when
// it would make a store that contains a hash-keyed container deal with an atom whose Atom.Hash() equals
// that of a DIFFERENT atom the store holds in some layer: Add / Remove / Contains of such an atom, and a
// Merge that would bring such an atom. Hash-equal CONSTANTS stay in the domain, pattern queries are never
// removed (a bucket is re-checked with Matches), and stores built only from MultiIndexedArrayInMemoryStore
// (which compares atoms inside a bucket) get the colliding atoms as well. See excludeK08.
const exclK08 = "K08-hash-colliders"

// preds is the fixed universe of predicates: two of arity 0 and two symbols at two arities each.
var preds = []ast.PredicateSym{
	{Symbol: "z", Arity: 0},
	{Symbol: "p", Arity: 1},
	{Symbol: "p", Arity: 2},
	{Symbol: "q", Arity: 1},
	{Symbol: "q", Arity: 2},
	{Symbol: "r", Arity: 3},
	{Symbol: "y", Arity: 0},
	{Symbol: "w", Arity: 6}, // wide: stores index a bounded number of columns / choose an index by column
}

// Store kinds.
const (
	kSimple     = "simple"     // SimpleInMemoryStore
	kIndexed    = "indexed"    // IndexedInMemoryStore
	kMulti      = "multi"      // MultiIndexedInMemoryStore
	kArray      = "array"      // MultiIndexedArrayInMemoryStore
	kTemporal   = "temporal"   // TemporalFactStoreAdapter over a TemporalStore (all facts)
	kTemporalAt = "temporalAt" // TemporalFactStoreAdapter over a TemporalStore, restricted to the instant At
	kMerged     = "merged"     // MergedStore(Reads..., write = Base)
	kTeeing     = "teeing"     // TeeingStore(base = Base), output store created by NewTeeingStore
	kConcurrent = "concurrent" // ConcurrentFactStore(Base)
	// kTLayer is not a FactStore: it is a layer of temporal facts below a temporal adapter. An adapter
	// (kTemporal / kTemporalAt) with Base = layer L wraps NewTeeingTemporalStore(build(L)), the combination
	// interpreter.pushSourceFragment + updateCombinedStore build; build(L) is a TemporalStore holding L.Init
	// or, if L has a Base itself, NewTeeingTemporalStore(build(L.Base)) whose output layer holds L.Init.
	// The Init atoms of a layer carry their validity intervals (Atom.Iv).
	kTLayer = "tlayer"
)

// Observation policies (Case.Observe).
const (
	obsEvery = ""      // after every step every live store is read back (also: old replay files)
	obsSteps = "steps" // only the generated observe steps read the stores back
	obsEnd   = "end"   // observe steps are skipped as well: only the final comparison
)

// Ways an observe step looks at a store (Step.How).
const (
	howScan = "scan" // full scan + ListPredicates of the store
	howAll  = "all"  // the same for every live store
	howEnum = "enum" // factstore.GetAllFacts(store)
	howCopy = "copy" // fresh store of kind Step.Into, fresh.Merge(store), the copy is compared with the model
)

// ivTable lists the validity intervals a temporal layer fact can have, as offsets in hours from the
// reference instant of the adapter (its At; 0 for the all-facts adapter). The reference instant is never a
// boundary (interval arithmetic is not C06's business): an interval clearly contains it or clearly does not.
var ivTable = []struct {
	lo, hi   int  // hours; ignored when infinite
	loInf    bool // start = -inf
	hiInf    bool // end = +inf
	contains bool // the reference instant lies inside
}{
	{loInf: true, hiInf: true, contains: true}, // 0: eternal
	{lo: -3, hi: 1, contains: true},
	{lo: -1, hi: 2, contains: true},
	{loInf: true, hi: 3, contains: true},
	{lo: -2, hiInf: true, contains: true},
	{lo: -3, hi: -2},
	{lo: 1, hi: 3},
	{lo: 2, hiInf: true},
	{lo: -1, hi: 1, contains: true},
}

func interval(ref int64, code int) ast.Interval {
	iv := ivTable[code]
	lo, hi := ast.NegativeInfinity(), ast.PositiveInfinity()
	if !iv.loInf {
		lo = ast.NewTimestampBound(time.Unix(0, ref+int64(iv.lo)*int64(time.Hour)))
	}
	if !iv.hiInf {
		hi = ast.NewTimestampBound(time.Unix(0, ref+int64(iv.hi)*int64(time.Hour)))
	}
	return ast.NewInterval(lo, hi)
}

// Atom is a ground atom: predicate index into preds, argument indices into Case.Dom.
type Atom struct {
	P int   `json:"p"`
	A []int `json:"a,omitempty"`
	// Iv: only for Init atoms of a temporal layer (kTLayer): indices into ivTable, the intervals the fact is
	// stored with (none = eternal). Below an adapter restricted to an instant at least one contains it.
	Iv []int `json:"iv,omitempty"`
}

// Store is a store configuration. Init lists the facts added through this store's own Add right after
// it has been built (for a node in a read-only position these are what the layer holds).
type Store struct {
	Kind  string  `json:"kind"`
	At    int64   `json:"at,omitempty"`    // temporalAt: the instant (ns)
	Reads []Store `json:"reads,omitempty"` // merged: read layers
	Base  *Store  `json:"base,omitempty"`  // merged: write store; teeing: base; concurrent: base
	Init  []Atom  `json:"init,omitempty"`
}

// Col is one column of a query pattern: K = "c" constant Dom[I], "v" variable X<I>, "_" wildcard.
type Col struct {
	K string `json:"k"`
	I int    `json:"i,omitempty"`
}

// Step is one operation of the history on store Stores[On]; a merge reads Stores[From] (From != On).
type Step struct {
	Op   string `json:"op"` // add remove contains query merge preds count observe
	On   int    `json:"on,omitempty"`
	From int    `json:"from,omitempty"` // merge
	Atom *Atom  `json:"atom,omitempty"` // add remove contains
	Pred int    `json:"pred,omitempty"` // query
	Cols []Col  `json:"cols,omitempty"` // query
	How  string `json:"how,omitempty"`  // observe: howScan (also ""), howAll, howEnum, howCopy
	Into string `json:"into,omitempty"` // observe/copy: kind of the fresh store (a leaf kind; "" = array)
}

// Case is the replay format. Stores[0] is the primary store, the others are secondary stores: merge
// sources and merge targets that stay alive and take their own operations.
type Case struct {
	Dom    []val.V `json:"dom"`
	Stores []Store `json:"stores"`
	Steps  []Step  `json:"steps"`
	// Observe: when the stores are read back and compared with their models (obsEvery, obsSteps, obsEnd).
	Observe string `json:"observe,omitempty"`
}

func (c Case) hash() uint64 {
	b, _ := json.Marshal(c)
	return stats.Hash(string(b))
}

type verdict struct {
	nontrivial bool
	labels     []string
}

// matom is an atom of the model: canonical argument indices and canonical key.
type matom struct {
	p    int
	args []int
	key  string
}

// model is the reference for one store: a set of ground atoms split by where the store keeps them.
//
//	base – atoms held by read-only layers (never change)
//	w    – atoms held by the write layer and by no read-only layer
//	mo   – atoms of base that a Merge may have copied into the write layer as well (the visible set does
//	       not depend on it; only the answer of Remove for such an atom is left open)
type model struct {
	base, w, mo map[string]matom
	sorted      []matom // cache of all(); reset by touch()
	canRemove   bool    // the write path ends in a store with Remove
	exact       bool    // EstimateFactCount is documented to be exact
	hashKeyed   bool    // some leaf of the tree keys atoms by Atom.Hash() without comparing them (K08)
	// tbase: atoms of base that temporal layers below an adapter ON THE WRITE PATH hold. Add of such an atom
	// reaches the adapter, which stores the eternal interval in the output layer of the TeeingTemporalStore:
	// a new temporal fact about an atom that is already visible. Whether that is reported as "added" is not
	// determined by the set view (either answer); the atom stays visible and must be read back ONCE.
	tbase map[string]bool
}

func newModel(s Store) *model {
	return &model{base: map[string]matom{}, w: map[string]matom{}, mo: map[string]matom{}, tbase: map[string]bool{},
		canRemove: supportsRemove(s), exact: exact(s), hashKeyed: hashKeyed(s)}
}

// touch must be called after every change of base or w.
func (m *model) touch() { m.sorted = nil }

func (m *model) visible(key string) bool {
	if _, ok := m.base[key]; ok {
		return true
	}
	_, ok := m.w[key]
	return ok
}

func (m *model) size() int { return len(m.base) + len(m.w) }

// all returns the visible atoms sorted by key (callers must not modify the result).
func (m *model) all() []matom {
	if m.sorted != nil {
		return m.sorted
	}
	res := make([]matom, 0, m.size()+1)
	for _, a := range m.base {
		res = append(res, a)
	}
	for _, a := range m.w {
		res = append(res, a)
	}
	sort.Slice(res, func(i, j int) bool { return res[i].key < res[j].key })
	m.sorted = res
	return res
}

func (m *model) hasPred(p int) bool {
	for _, a := range m.all() {
		if a.p == p {
			return true
		}
	}
	return false
}

// The transitions of the model. They are shared by the oracle (check) and by the K08 exclusion
// (excludeK08), which has to know what each store holds when it decides about a step.

// setup records a set-up fact; false if some layer holds it already (the fact is then not added).
func (m *model) setup(a matom, writable bool) bool {
	if m.visible(a.key) {
		return false
	}
	if writable {
		m.w[a.key] = a
	} else {
		m.base[a.key] = a
	}
	m.touch()
	return true
}

// add: true iff the atom was absent; it then belongs to the write layer.
func (m *model) add(a matom) bool {
	if m.visible(a.key) {
		return false
	}
	m.w[a.key] = a
	m.touch()
	return true
}

// Classes of a Remove.
const (
	rmWrite      = iota // the write layer holds the atom: must return true, the atom is gone
	rmMergedOver        // a read-only layer holds it and a Merge may have copied it: either answer, still visible
	rmBaseOnly          // only a read-only layer holds it: must return false, still visible
	rmAbsent            // must return false
)

func (m *model) remove(a matom) int {
	if _, ok := m.w[a.key]; ok {
		delete(m.w, a.key)
		m.touch()
		return rmWrite
	}
	if _, ok := m.base[a.key]; ok {
		if _, ok := m.mo[a.key]; ok {
			delete(m.mo, a.key)
			return rmMergedOver
		}
		return rmBaseOnly
	}
	return rmAbsent
}

// merge: everything src shows becomes visible; returns the number of new atoms and whether some atom of a
// read-only layer was merged over.
func (m *model) merge(src *model) (added int, overBase bool) {
	for _, a := range src.all() {
		if _, ok := m.base[a.key]; ok {
			m.mo[a.key] = a
			overBase = true
			continue
		}
		if _, ok := m.w[a.key]; !ok {
			m.w[a.key] = a
			added++
		}
	}
	m.touch()
	return added, overBase
}

// walkInits visits the set-up facts of the tree in the order mk adds them (read layers, then the
// write/base child, then the node's own facts). writable: the node lies on the write path of the root.
func walkInits(s *Store, writable bool, visit func(node *Store, i int, writable bool)) {
	switch s.Kind {
	case kMerged:
		for i := range s.Reads {
			walkInits(&s.Reads[i], false, visit)
		}
		if s.Base != nil {
			walkInits(s.Base, writable, visit)
		}
	case kTeeing:
		if s.Base != nil {
			walkInits(s.Base, false, visit)
		}
	case kConcurrent:
		if s.Base != nil {
			walkInits(s.Base, writable, visit)
		}
	case kTemporal, kTemporalAt, kTLayer:
		// the temporal layers below an adapter are read-only (the adapter writes to the topmost output layer)
		if s.Base != nil {
			walkInits(s.Base, false, visit)
		}
	}
	for i := range s.Init {
		visit(s, i, writable)
	}
}

type env struct {
	run    *stats.Run
	f      stats.Failer
	c      Case
	canon  []int          // index of the first domain value with the same key
	consts []ast.Constant // built once per canonical index (the same value is never built twice)
	labels map[string]bool
}

// newEnv builds every distinct value exactly once (building a map twice may give two representations,
// K22/C08).
func newEnv(run *stats.Run, f stats.Failer, c Case) *env {
	e := &env{run: run, f: f, c: c, labels: map[string]bool{}}
	first := map[string]int{}
	e.canon = make([]int, len(c.Dom))
	e.consts = make([]ast.Constant, len(c.Dom))
	for i, v := range c.Dom {
		k := v.Key()
		if j, ok := first[k]; ok {
			e.canon[i] = j
			e.consts[i] = e.consts[j]
			continue
		}
		first[k] = i
		e.canon[i] = i
		e.consts[i] = v.Build()
	}
	return e
}

func (e *env) label(l string) { e.labels[l] = true }

func (e *env) validAtom(a Atom) bool {
	if a.P < 0 || a.P >= len(preds) || len(a.A) != preds[a.P].Arity {
		return false
	}
	for _, i := range a.A {
		if i < 0 || i >= len(e.c.Dom) {
			return false
		}
	}
	return true
}

func (e *env) matom(a Atom) matom {
	if !e.validAtom(a) {
		e.f.Fatalf("harness: malformed atom %+v in the case", a)
	}
	m := matom{p: a.P, args: make([]int, len(a.A))}
	var sb strings.Builder
	sb.WriteString(preds[a.P].Symbol)
	sb.WriteString("/")
	sb.WriteString(strconv.Itoa(len(a.A)))
	sb.WriteString("(")
	for i, x := range a.A {
		m.args[i] = e.canon[x]
		if i > 0 {
			sb.WriteString(", ")
		}
		sb.WriteString(e.c.Dom[e.canon[x]].Key())
	}
	sb.WriteString(")")
	m.key = sb.String() // same format as val.AtomKey of the built atom
	return m
}

func (e *env) build(m matom) ast.Atom {
	args := make([]ast.BaseTerm, len(m.args))
	for i, x := range m.args {
		args[i] = e.consts[x]
	}
	return ast.Atom{Predicate: preds[m.p], Args: args}
}

// show prints a model atom with the harness' own printer.
func (e *env) show(m matom) string {
	parts := make([]string, len(m.args))
	for i, x := range m.args {
		parts[i] = e.c.Dom[x].Source()
	}
	return preds[m.p].Symbol + "(" + strings.Join(parts, ", ") + ")"
}

func (e *env) showAll(ms []matom) string {
	parts := make([]string, len(ms))
	for i, m := range ms {
		parts[i] = e.show(m)
	}
	return "{" + strings.Join(parts, " ") + "}"
}

// guard runs fn and reports a panic of the code under test as a violation.
func (e *env) guard(what string, fn func()) {
	defer func() {
		if p := recover(); p != nil {
			e.run.Failf(e.f, "%s panicked: %v", what, p)
		}
	}()
	fn()
}

func supportsRemove(s Store) bool {
	switch s.Kind {
	case kSimple, kIndexed, kMulti, kArray, kTeeing:
		return true
	case kMerged, kConcurrent:
		return s.Base != nil && supportsRemove(*s.Base)
	}
	return false
}

// exact tells whether EstimateFactCount is documented to be exact: no layering wrapper on the write path.
func exact(s Store) bool {
	switch s.Kind {
	case kMerged:
		return len(s.Reads) == 0 && s.Base != nil && exact(*s.Base)
	case kTeeing:
		return false
	case kConcurrent:
		return s.Base != nil && exact(*s.Base)
	case kTemporal, kTemporalAt:
		// over temporal layers the count is the number of (atom, interval) pairs of all layers
		return s.Base == nil
	}
	return true
}

func leafKinds(s Store, into map[string]bool) {
	switch s.Kind {
	case kMerged, kTeeing, kConcurrent:
		for _, r := range s.Reads {
			leafKinds(r, into)
		}
		if s.Base != nil {
			leafKinds(*s.Base, into)
		}
		if s.Kind == kTeeing {
			into[kArray] = true
		}
	default:
		into[s.Kind] = true
	}
}

// hashKeyed: the tree contains a store that keys atoms by Atom.Hash() without comparing them.
func hashKeyed(s Store) bool {
	lk := map[string]bool{}
	leafKinds(s, lk)
	return lk[kSimple] || lk[kIndexed] || lk[kMulti] || lk[kTemporal] || lk[kTemporalAt]
}

func describe(s Store) string {
	switch s.Kind {
	case kMerged:
		var rs []string
		for _, r := range s.Reads {
			rs = append(rs, describe(r))
		}
		b := "?"
		if s.Base != nil {
			b = describe(*s.Base)
		}
		return "merged([" + strings.Join(rs, ",") + "]," + b + ")"
	case kTeeing, kConcurrent:
		if s.Base == nil {
			return s.Kind + "(?)"
		}
		return s.Kind + "(" + describe(*s.Base) + ")"
	case kTemporal, kTemporalAt:
		if s.Base != nil {
			return s.Kind + "(teeingTemporal(" + describe(*s.Base) + "))"
		}
	case kTLayer:
		if s.Base != nil {
			return "teeingTemporal(" + describe(*s.Base) + ")"
		}
		return "temporalStore"
	}
	return s.Kind
}

// mk builds the store described by s. Facts of Init are added through the new store's Add; they are new
// to the whole tree (the read layers of the wrappers are disjoint, as their documentation advises) – an
// Init atom that some layer already holds is skipped. writable tells whether the node lies on the write
// path of the top-level store (its facts are then removable), otherwise they belong to the read-only part.
func (e *env) mk(s Store, writable bool, m *model, depth int) factstore.FactStore {
	if depth > 4 {
		e.f.Fatalf("harness: store configuration nested too deeply")
	}
	var st factstore.FactStore
	switch s.Kind {
	case kSimple:
		st = factstore.NewSimpleInMemoryStore()
	case kIndexed:
		st = factstore.NewIndexedInMemoryStore()
	case kMulti:
		st = factstore.NewMultiIndexedInMemoryStore()
	case kArray:
		st = factstore.NewMultiIndexedArrayInMemoryStore()
	case kTemporal, kTemporalAt:
		var ts factstore.TemporalFactStore = factstore.NewTemporalStore()
		if s.Base != nil {
			// as interpreter.pushSourceFragment: a TeeingTemporalStore over the layers so far, wrapped by the adapter
			ts = factstore.NewTeeingTemporalStore(e.mkTLayer(*s.Base, s, writable, m, map[string]bool{}, depth+1))
			e.label("temporal-adapter-over-teeing")
		}
		if s.Kind == kTemporal {
			st = factstore.NewTemporalFactStoreAdapter(ts)
		} else {
			st = factstore.NewTemporalFactStoreAdapterAt(ts, time.Unix(0, s.At))
		}
	case kTLayer:
		e.f.Fatalf("harness: a temporal layer can only be the base of a temporal adapter")
	case kMerged:
		if s.Base == nil {
			e.f.Fatalf("harness: merged store without a write store")
		}
		var reads []factstore.ReadOnlyFactStore
		for _, r := range s.Reads {
			reads = append(reads, e.mk(r, false, m, depth+1))
		}
		write := e.mk(*s.Base, writable, m, depth+1)
		st = factstore.NewMergedStore(reads, write)
	case kTeeing:
		if s.Base == nil {
			e.f.Fatalf("harness: teeing store without a base")
		}
		st = factstore.NewTeeingStore(e.mk(*s.Base, false, m, depth+1))
	case kConcurrent:
		if s.Base == nil {
			e.f.Fatalf("harness: concurrent store without a base")
		}
		base, ok := e.mk(*s.Base, writable, m, depth+1).(factstore.FactStoreWithRemove)
		if !ok {
			e.f.Fatalf("harness: %s cannot be the base of a ConcurrentFactStore", s.Base.Kind)
		}
		st = factstore.NewConcurrentFactStore(base)
	default:
		e.f.Fatalf("harness: unknown store kind %q", s.Kind)
	}
	for _, a := range s.Init {
		ma := e.matom(a)
		if !m.setup(ma, writable) {
			continue
		}
		var got bool
		e.guard("Add", func() { got = st.Add(e.build(ma)) })
		if !got {
			e.run.Failf(e.f, "set-up of %s: Add(%s) returned false although no layer holds the atom", describe(s), e.show(ma))
		}
	}
	return st
}

// mkTLayer builds the temporal layer l below the adapter ad (see kTLayer). The facts of the layer are stored
// with their intervals through the layer's own Add; every one is visible through the adapter (below an
// adapter restricted to an instant at least one interval contains that instant). Unlike the read layers of
// the FactStore wrappers, the layers of ONE adapter may hold the same atom (held: what the layers built so
// far hold) - reporting it once is the adapter's job; an atom some other part of the tree holds is skipped.
func (e *env) mkTLayer(l Store, ad Store, adWritable bool, m *model, held map[string]bool, depth int) factstore.TemporalFactStore {
	if depth > 5 {
		e.f.Fatalf("harness: store configuration nested too deeply")
	}
	if l.Kind != kTLayer {
		e.f.Fatalf("harness: the base of a temporal adapter must be a temporal layer, not %q", l.Kind)
	}
	var ts factstore.TemporalFactStore
	if l.Base != nil {
		ts = factstore.NewTeeingTemporalStore(e.mkTLayer(*l.Base, ad, adWritable, m, held, depth+1))
		e.label("temporal-layers:2+")
	} else {
		ts = factstore.NewTemporalStore()
	}
	ref := int64(0)
	if ad.Kind == kTemporalAt {
		ref = ad.At
	}
	inLayer := map[string]bool{}
	for _, a := range l.Init {
		ma := e.matom(a)
		if inLayer[ma.key] {
			continue
		}
		inLayer[ma.key] = true
		if held[ma.key] {
			e.label("temporal-layers-share-an-atom")
		} else if !m.setup(ma, false) {
			continue
		}
		held[ma.key] = true
		if adWritable {
			m.tbase[ma.key] = true
		}
		codes := a.Iv
		if len(codes) == 0 {
			codes = []int{0}
		}
		seen := map[int]bool{}
		visible := false
		for _, code := range codes {
			if code < 0 || code >= len(ivTable) {
				e.f.Fatalf("harness: malformed interval code %d", code)
			}
			if seen[code] {
				continue
			}
			seen[code] = true
			visible = visible || ivTable[code].contains
			var got bool
			var err error
			e.guard("TemporalFactStore.Add", func() { got, err = ts.Add(e.build(ma), interval(ref, code)) })
			if err != nil || !got {
				e.f.Fatalf("harness: set-up of a temporal layer: Add(%s, interval %d) = %v, %v", e.show(ma), code, got, err)
			}
		}
		if len(seen) > 1 {
			e.label("temporal-layer-atom-with-several-intervals")
		}
		if ad.Kind == kTemporalAt && !visible {
			e.f.Fatalf("harness: temporal layer fact %s is not valid at the instant of the adapter", e.show(ma))
		}
	}
	return ts
}

// scan reads every predicate of the universe with an all-variables query and compares the stream with the
// model: every visible atom exactly once and nothing else.
func (e *env) scan(st factstore.ReadOnlyFactStore, m *model, when func() string) {
	want := make([][]matom, len(preds))
	for _, a := range m.all() {
		want[a.p] = append(want[a.p], a)
	}
	for p := range preds {
		p := p
		e.compare(st, allVars[p], want[p], want[p], func() string { return fmt.Sprintf("%s: full scan %s", when(), preds[p]) })
	}
}

// allVars[p] is the query with a distinct variable in every column.
var allVars = func() []ast.Atom {
	res := make([]ast.Atom, len(preds))
	for p := range preds {
		res[p] = ast.NewQuery(preds[p])
	}
	return res
}()

// compare runs GetFacts(query) and requires: every atom of must exactly once, nothing outside may, nothing twice.
func (e *env) compare(st factstore.ReadOnlyFactStore, query ast.Atom, must, may []matom, what func() string) int {
	got := map[string]int{}
	var order []string
	var err error
	e.guard("GetFacts", func() {
		err = st.GetFacts(query, func(a ast.Atom) error {
			k := val.AtomKey(a)
			if got[k] == 0 {
				order = append(order, k)
			}
			got[k]++
			return nil
		})
	})
	if err != nil {
		e.run.Failf(e.f, "%s: GetFacts returned an error: %v", what(), err)
	}
	if len(order) == len(must) && len(must) == len(may) {
		// fast path: same number of distinct atoms, each once, each expected
		ok := true
		for _, a := range must {
			if got[a.key] != 1 {
				ok = false
				break
			}
		}
		if ok {
			return len(order)
		}
	}
	sort.Strings(order)
	allowed := map[string]bool{}
	for _, a := range may {
		allowed[a.key] = true
	}
	var missing, extra, twice []string
	for _, a := range must {
		if got[a.key] == 0 {
			missing = append(missing, e.show(a))
		}
	}
	for _, k := range order {
		if !allowed[k] {
			extra = append(extra, k)
		}
		if got[k] > 1 {
			twice = append(twice, fmt.Sprintf("%s x%d", k, got[k]))
		}
	}
	if len(missing)+len(extra)+len(twice) > 0 {
		e.run.Failf(e.f, "%s: the set holds %s; missing from the answer: %v; not in the set / not matching: %v; yielded more than once: %v",
			what(), e.showAll(may), missing, extra, twice)
	}
	return len(order)
}

func (e *env) pattern(s Step) (ast.Atom, string) {
	if s.Pred < 0 || s.Pred >= len(preds) || len(s.Cols) != preds[s.Pred].Arity {
		e.f.Fatalf("harness: malformed query step %+v", s)
	}
	args := make([]ast.BaseTerm, len(s.Cols))
	parts := make([]string, len(s.Cols))
	for i, c := range s.Cols {
		switch c.K {
		case "c":
			if c.I < 0 || c.I >= len(e.c.Dom) {
				e.f.Fatalf("harness: malformed query step %+v", s)
			}
			args[i] = e.consts[e.canon[c.I]]
			parts[i] = e.c.Dom[c.I].Source()
		case "v":
			args[i] = ast.Variable{Symbol: fmt.Sprintf("X%d", c.I)}
			parts[i] = fmt.Sprintf("X%d", c.I)
		case "_":
			args[i] = ast.Variable{Symbol: "_"}
			parts[i] = "_"
		default:
			e.f.Fatalf("harness: malformed query column %+v", c)
		}
	}
	return ast.Atom{Predicate: preds[s.Pred], Args: args}, preds[s.Pred].Symbol + "(" + strings.Join(parts, ", ") + ")"
}

func (e *env) storeIndex(i, step int) int {
	if i < 0 || i >= len(e.c.Stores) {
		e.f.Fatalf("harness: step %d refers to store %d, the case has %d stores", step, i, len(e.c.Stores))
	}
	return i
}

// freshShare remembers that a Merge brought facts of predicate pred from store src to store dst while dst
// had no fact of that predicate: the situation in which an implementation could be tempted to share a
// container instead of copying it.
type freshShare struct{ src, dst, pred int }

// check interprets the history of c against the stores and their set models.
func check(run *stats.Run, f stats.Failer, c Case) verdict {
	e := newEnv(run, f, c)
	if len(c.Stores) == 0 {
		f.Fatalf("harness: case without stores")
	}
	stores := make([]factstore.FactStore, len(c.Stores))
	models := make([]*model, len(c.Stores))
	name := func(i int) string {
		if i == 0 {
			return "store 0 = " + describe(c.Stores[0])
		}
		return fmt.Sprintf("store %d = %s", i, describe(c.Stores[i]))
	}
	for i, s := range c.Stores {
		models[i] = newModel(s)
		stores[i] = e.mk(s, true, models[i], 0)
		lk := map[string]bool{}
		leafKinds(s, lk)
		for k := range lk {
			e.label("leaf:" + k)
		}
		if i == 0 {
			e.label("kind:" + s.Kind)
		} else {
			e.label("secondary:" + s.Kind)
		}
		if len(models[i].base) > 0 {
			e.label("base-facts")
		}
	}
	e.label(fmt.Sprintf("stores:%d", len(c.Stores)))
	switch c.Observe {
	case obsEvery:
		e.label("observe:after-every-step")
	case obsSteps:
		e.label("observe:at-observe-steps-only")
	case obsEnd:
		e.label("observe:at-the-end-only")
	default:
		f.Fatalf("harness: unknown observation policy %q", c.Observe)
	}
	scanAll := func(when func() string) {
		for i := range stores {
			i := i
			e.scan(stores[i], models[i], func() string { return when() + ": " + name(i) })
		}
	}
	if c.Observe == obsEvery {
		scanAll(func() string { return "after set-up" })
	}
	// listed(i) is called whenever some consumer lists the predicates of store i (ListPredicates step, Merge
	// FROM the store, an observation). It classifies what happened to the store since the previous listing;
	// the interesting class is a set of predicates that changed while its size did not.
	lastListed := make([]map[int]bool, len(stores))
	mutSince := make([]int, len(stores)) // effective adds/removes/merges since the store was last read back
	var fChurn, fTLayerOverlap bool
	listed := func(i int) {
		cur := map[int]bool{}
		for _, a := range models[i].all() {
			cur[a.p] = true
		}
		if prev := lastListed[i]; prev != nil {
			same := len(prev) == len(cur)
			for p := range cur {
				if !prev[p] {
					same = false
				}
			}
			switch {
			case same:
			case len(prev) == len(cur):
				fChurn = true
				e.label("listing-after-predicate-churn-same-count")
			default:
				e.label("listing-after-predicate-count-change")
			}
		}
		lastListed[i] = cur
	}
	readBack := func(i int) {
		switch n := mutSince[i]; {
		case n == 0:
		case n == 1:
			e.label("read-back-after-mutations:1")
		case n < 4:
			e.label("read-back-after-mutations:2-3")
		default:
			e.label("read-back-after-mutations:4+")
		}
		mutSince[i] = 0
	}

	removed := map[string]bool{} // store index + atom key: a Remove took the atom out of that store's set
	var shares []freshShare
	var fReadd, fMerge, fNonFirst, fTwin, fShareMut bool
	usedStructured, usedArity0, twoArities := false, false, false
	// mutated: store on changed its set on predicate p
	mutated := func(on, p int) {
		for _, sh := range shares {
			if sh.pred == p && (sh.src == on || sh.dst == on) {
				fShareMut = true
				if sh.src == on {
					e.label("mutation-of-source-after-merge-into-absent-pred")
				} else {
					e.label("mutation-of-dest-after-merge-into-absent-pred")
				}
			}
		}
	}

	for i, s := range c.Steps {
		i, s := i, s
		on := e.storeIndex(s.On, i)
		st, m := stores[on], models[on]
		when := lazy(func() string { return fmt.Sprintf("step %d (%s) on %s", i, s.Op, name(on)) })
		switch s.Op {
		case "add":
			if s.Atom == nil {
				f.Fatalf("harness: step %d without atom", i)
			}
			a := e.matom(*s.Atom)
			where := "absent"
			if _, ok := m.base[a.key]; ok {
				where = "held by a read-only layer"
			} else if _, ok := m.w[a.key]; ok {
				where = "held by the write layer"
			}
			var got bool
			e.guard("Add", func() { got = st.Add(e.build(a)) })
			overTemporal := where == "held by a read-only layer" && m.tbase[a.key]
			if want := where == "absent"; got != want && !overTemporal {
				run.Failf(f, "%s: Add(%s) returned %v, but the atom is %s; set = %s", when, e.show(a), got, where, e.showAll(m.all()))
			}
			if overTemporal {
				// the adapter stored the eternal interval in the output layer: the atom is now held by two
				// layers of the TeeingTemporalStore and must still be read back once
				fTLayerOverlap = true
				mutSince[on]++
				e.label("add-over-temporal-layer-atom")
			}
			if m.add(a) {
				mutSince[on]++
				if removed[strconv.Itoa(on)+a.key] {
					fReadd = true
					e.label("re-add-after-remove")
				}
				e.label("add-new")
				mutated(on, a.p)
			} else if where == "held by a read-only layer" {
				e.label("add-present-in-base")
			} else {
				e.label("add-present")
			}
		case "remove":
			if s.Atom == nil {
				f.Fatalf("harness: step %d without atom", i)
			}
			if !m.canRemove {
				continue // the configuration has no Remove (temporal adapter on the write path)
			}
			a := e.matom(*s.Atom)
			remover, ok := st.(factstore.FactStoreWithRemove)
			if !ok {
				f.Fatalf("harness: %s does not implement FactStoreWithRemove", name(on))
			}
			var got bool
			e.guard("Remove", func() { got = remover.Remove(e.build(a)) })
			before := m.all()
			switch m.remove(a) {
			case rmWrite:
				if !got {
					run.Failf(f, "%s: Remove(%s) returned false, but the write layer holds the atom; set = %s", when, e.show(a), e.showAll(before))
				}
				removed[strconv.Itoa(on)+a.key] = true
				mutSince[on]++
				e.label("remove-present")
				mutated(on, a.p)
			case rmMergedOver:
				// A Merge brought an atom that a read-only layer holds; whether the write layer got a copy
				// (Teeing: pinned by TestTeeingAddContainsMerge) is not part of the property: either answer.
				e.label("remove-merged-over-base")
			case rmBaseOnly:
				if got {
					run.Failf(f, "%s: Remove(%s) returned true, but only a read-only layer holds the atom (nothing can have been removed)", when, e.show(a))
				}
				e.label("remove-base-only")
			default:
				if got {
					run.Failf(f, "%s: Remove(%s) returned true, but the atom is absent; set = %s", when, e.show(a), e.showAll(before))
				}
				e.label("remove-absent")
			}
		case "contains":
			if s.Atom == nil {
				f.Fatalf("harness: step %d without atom", i)
			}
			a := e.matom(*s.Atom)
			want := m.visible(a.key)
			var got bool
			e.guard("Contains", func() { got = st.Contains(e.build(a)) })
			if got != want {
				run.Failf(f, "%s: Contains(%s) = %v, want %v; set = %s", when, e.show(a), got, want, e.showAll(m.all()))
			}
			if want {
				e.label("contains-true")
			} else {
				e.label("contains-false")
			}
		case "query":
			q, text := e.pattern(s)
			// may: atoms agreeing with the constants of the pattern. must: those that also respect repeated
			// variables. Stores ignore variables (callers unify afterwards), but a store that filtered on
			// repeated variables would still answer the query; both are accepted.
			var must, may []matom
			hasConst, constNonFirst, repeated, wildcard := false, false, false, false
			seenVar := map[int]bool{}
			for ci, col := range s.Cols {
				switch col.K {
				case "c":
					hasConst = true
					if ci > 0 {
						constNonFirst = true
					}
				case "v":
					if seenVar[col.I] {
						repeated = true
					}
					seenVar[col.I] = true
				case "_":
					wildcard = true
				}
			}
			firstIsVar := len(s.Cols) > 0 && s.Cols[0].K != "c"
			// twinMiss[ci]: some stored atom of the predicate agrees with the pattern everywhere except in
			// the constant column ci, where it holds a different value with the same library hash – the
			// atom shares every hash bucket of that column with the atoms asked for and must be told apart.
			twinMiss := map[int]bool{}
			for _, a := range m.all() {
				if a.p != s.Pred {
					continue
				}
				okConst, okVars := true, true
				nMiss, missCol := 0, -1
				bind := map[int]int{}
				for ci, col := range s.Cols {
					switch col.K {
					case "c":
						if e.canon[col.I] != a.args[ci] {
							okConst = false
							nMiss++
							missCol = ci
						}
					case "v":
						if prev, ok := bind[col.I]; ok && prev != a.args[ci] {
							okVars = false
						}
						bind[col.I] = a.args[ci]
					}
				}
				if okConst {
					may = append(may, a)
					if okVars {
						must = append(must, a)
					}
				} else if nMiss == 1 && e.consts[e.canon[s.Cols[missCol].I]].Hash() == e.consts[a.args[missCol]].Hash() {
					// (the library hash only classifies the case for the statistics, it is not part of the verdict)
					twinMiss[missCol] = true
				}
			}
			n := e.compare(st, q, must, may, func() string { return fmt.Sprintf("%s: query %s", when, text) })
			if n > 0 {
				e.label("query-nonempty")
			} else {
				e.label("query-empty")
			}
			if hasConst {
				e.label("query-const")
			}
			if constNonFirst && firstIsVar {
				e.label("query-const-nonfirst-only")
				if len(may) > 0 {
					fNonFirst = true
				}
			}
			for ci := range twinMiss {
				fTwin = true
				if ci == 0 {
					e.label("query-hash-twin-stored-col0")
				} else {
					e.label("query-hash-twin-stored-col>0")
				}
				if m.hashKeyed {
					e.label("query-hash-twin-on-hash-keyed-store")
				}
			}
			if repeated {
				e.label("query-repeated-var")
			}
			if wildcard {
				e.label("query-wildcard")
			}
			if len(s.Cols) == 0 {
				e.label("query-arity0")
			}
		case "merge":
			from := e.storeIndex(s.From, i)
			if from == on {
				f.Fatalf("harness: step %d merges store %d into itself", i, on)
			}
			src := models[from]
			for p := range preds {
				if src.hasPred(p) && !m.hasPred(p) {
					shares = append(shares, freshShare{src: from, dst: on, pred: p})
					e.label("merge-into-absent-pred")
				}
			}
			e.guard("Merge", func() { st.Merge(stores[from]) })
			listed(from)
			for _, a := range src.all() {
				if m.tbase[a.key] {
					fTLayerOverlap = true
					e.label("merge-over-temporal-layer-atom")
					break
				}
			}
			added, over := m.merge(src)
			if over {
				e.label("merge-over-base")
			}
			if added > 0 || over {
				mutSince[on]++
			}
			switch {
			case from == 0:
				e.label("merge-primary-into-secondary")
			case on == 0:
				e.label("merge-secondary-into-primary")
			default:
				e.label("merge-secondary-into-secondary")
			}
			if added > 0 {
				e.label("merge-new-facts")
				if c.Stores[from].Kind != c.Stores[on].Kind {
					fMerge = true
					e.label("merge-across-kinds")
				}
			} else {
				e.label("merge-nothing-new")
			}
		case "preds":
			e.checkPreds(st, m, when)
			listed(on)
		case "observe":
			if c.Observe == obsEnd {
				continue // this policy looks at the stores at the end only
			}
			switch s.How {
			case "", howScan:
				e.scan(st, m, when.String)
				e.checkPreds(st, m, when)
				listed(on)
				readBack(on)
				e.label("observe-step:scan")
			case howAll:
				scanAll(when.String)
				for j := range stores {
					e.checkPreds(stores[j], models[j], lazy(func() string { return when.String() + ": " + name(j) }))
					listed(j)
					readBack(j)
				}
				e.label("observe-step:all-stores")
			case howEnum:
				e.enumerate(st, m, when)
				listed(on)
				readBack(on)
				e.label("observe-step:GetAllFacts")
			case howCopy:
				e.copyCompare(st, m, s.Into, when)
				listed(on)
				readBack(on)
				e.label("observe-step:merge-into-fresh-" + copyKind(s.Into))
			default:
				f.Fatalf("harness: unknown way of observing %q", s.How)
			}
		case "count":
			var got int
			e.guard("EstimateFactCount", func() { got = st.EstimateFactCount() })
			if m.exact && got != m.size() {
				run.Failf(f, "%s: EstimateFactCount() = %d, the set has %d atoms: %s", when, got, m.size(), e.showAll(m.all()))
			}
			if !m.exact && got < m.size() {
				run.Failf(f, "%s: EstimateFactCount() = %d is below the number of atoms %d: %s", when, got, m.size(), e.showAll(m.all()))
			}
		default:
			f.Fatalf("harness: unknown op %q", s.Op)
		}
		if c.Observe == obsEvery {
			// after every step every live store, read completely, is its model
			scanAll(func() string { return "after " + when.String() })
			e.checkPreds(st, m, lazy(func() string { return "after " + when.String() }))
			listed(on)
			for j := range stores {
				mutSince[j] = 0
			}
		}
		// (nothing below touches the stores)
		have := map[int]bool{}
		for _, a := range m.all() {
			have[a.p] = true
			if len(a.args) == 0 {
				usedArity0 = true
			}
			for _, x := range a.args {
				v := c.Dom[x]
				if v.T == val.Pair || v.T == val.List || v.T == val.Map || v.T == val.Struct {
					usedStructured = true
				}
			}
		}
		if (have[1] && have[2]) || (have[3] && have[4]) {
			twoArities = true
		}
	}
	// The final comparison, under every policy: each store is listed, enumerated, scanned and copied.
	for j := range stores {
		j := j
		at := lazy(func() string { return "at the end of the history: " + name(j) })
		readBack(j)
		e.checkPreds(stores[j], models[j], at)
		listed(j)
		e.enumerate(stores[j], models[j], at)
		e.scan(stores[j], models[j], at.String)
		e.copyCompare(stores[j], models[j], kArray, at)
	}
	switch n := len(c.Steps); {
	case n < 10:
		e.label("steps:1-9")
	case n < 30:
		e.label("steps:10-29")
	default:
		e.label("steps:30+")
	}
	if usedStructured {
		e.label("structured-args")
	}
	if usedArity0 {
		e.label("arity0-fact")
	}
	if twoArities {
		e.label("symbol-at-two-arities")
	}
	if fReadd {
		e.label("NT:re-add")
	}
	if fMerge {
		e.label("NT:merge-across-kinds")
	}
	if fNonFirst {
		e.label("NT:nonfirst-query-hit")
	}
	if fTwin {
		e.label("NT:query-with-stored-hash-twin")
	}
	if fShareMut {
		e.label("NT:mutation-after-merge-into-absent-pred")
	}
	if fChurn {
		e.label("NT:listing-after-predicate-churn-same-count")
	}
	if fTLayerOverlap {
		e.label("NT:atom-in-two-temporal-layers-through-adapter")
	}
	v := verdict{}
	// Non-trivial: at least three of: a non-first-column query with a non-empty candidate set; a merge across
	// kinds that brought new facts; a remove followed by a successful re-add; a query with a constant whose
	// hash twin is stored in that column; a change of one of the two stores of a merge that introduced a
	// predicate to the destination; two listings of a store between which its set of predicates changed but
	// not their number; an Add or Merge through a temporal adapter of an atom a lower temporal layer holds.
	feats := 0
	for _, b := range []bool{fNonFirst, fMerge, fReadd, fTwin, fShareMut, fChurn, fTLayerOverlap} {
		if b {
			feats++
		}
	}
	v.nontrivial = feats >= 3
	for l := range e.labels {
		v.labels = append(v.labels, l)
	}
	sort.Strings(v.labels)
	return v
}

// checkPreds: ListPredicates lists every predicate that has a fact, and none twice.
func (e *env) checkPreds(st factstore.ReadOnlyFactStore, m *model, when fmt.Stringer) {
	var got []ast.PredicateSym
	e.guard("ListPredicates", func() { got = st.ListPredicates() })
	seen := map[ast.PredicateSym]int{}
	for _, p := range got {
		seen[p]++
	}
	// Which entry a defective implementation loses or repeats can depend on Go map order; the verdict text
	// names only what the model determines (rapid shrinks only failures that repeat literally).
	dup := false
	for _, n := range seen {
		if n > 1 {
			dup = true
		}
	}
	lacking := false
	var need []string
	for p := range preds {
		if m.hasPred(p) {
			need = append(need, fmt.Sprintf("%s/%d", preds[p].Symbol, preds[p].Arity))
			if seen[preds[p]] == 0 {
				lacking = true
			}
		}
	}
	if !dup && !lacking {
		return
	}
	listed := make([]string, 0, len(got))
	for _, p := range got {
		listed = append(listed, fmt.Sprintf("%s/%d", p.Symbol, p.Arity))
	}
	sort.Strings(listed)
	e.f.Logf("ListPredicates() = %v", listed)
	if dup {
		e.run.Failf(e.f, "%s: ListPredicates() lists a predicate more than once (%d entries)", when, len(listed))
	}
	sort.Strings(need)
	e.run.Failf(e.f, "%s: ListPredicates() does not list every predicate that has facts: %v have facts, %d predicates are listed; set = %s",
		when, need, len(listed), e.showAll(m.all()))
}

// copyKind normalises the kind of the fresh store of a copy observation.
func copyKind(k string) string {
	if k == "" {
		return kArray
	}
	return k
}

// modelOf returns a model that holds the visible atoms of m in its write layer: what a fresh store must
// hold after fresh.Merge(store of m).
func modelOf(m *model, kind string) *model {
	c := newModel(Store{Kind: kind})
	for _, a := range m.all() {
		c.w[a.key] = a
	}
	return c
}

// enumerate reads the store through factstore.GetAllFacts (ListPredicates, then one all-variables query per
// listed predicate): every visible atom exactly once and nothing else.
func (e *env) enumerate(st factstore.FactStore, m *model, when fmt.Stringer) {
	got := map[string]int{}
	var err error
	e.guard("GetAllFacts", func() {
		err = factstore.GetAllFacts(st, func(a ast.Atom) error {
			got[val.AtomKey(a)]++
			return nil
		})
	})
	if err != nil {
		e.run.Failf(e.f, "%s: GetAllFacts returned an error: %v", when, err)
	}
	e.sameSet(got, m, func() string { return when.String() + ": GetAllFacts(store)" })
}

// sameSet: got (atom key -> number of times yielded) is the visible set of m, each atom once.
func (e *env) sameSet(got map[string]int, m *model, what func() string) {
	var missing, extra, twice []string
	for _, a := range m.all() {
		if got[a.key] == 0 {
			missing = append(missing, e.show(a))
		}
	}
	for k, n := range got {
		if !m.visible(k) {
			extra = append(extra, k)
		}
		if n > 1 {
			twice = append(twice, fmt.Sprintf("%s x%d", k, n))
		}
	}
	if len(missing)+len(extra)+len(twice) > 0 {
		sort.Strings(extra)
		sort.Strings(twice)
		e.run.Failf(e.f, "%s: the set holds %s; missing from the answer: %v; not in the set: %v; yielded more than once: %v",
			what(), e.showAll(m.all()), missing, extra, twice)
	}
}

// copyCompare observes the store through another consumer: a fresh store of the given leaf kind merges
// it, and the copy must be the set - membership by full scan, predicate list and (the copy is an exact
// store) fact count. A source that misreports its predicates or facts to Merge shows up as a wrong copy.
func (e *env) copyCompare(st factstore.FactStore, m *model, kind string, when fmt.Stringer) {
	kind = copyKind(kind)
	var fresh factstore.FactStore
	switch kind {
	case kSimple:
		fresh = factstore.NewSimpleInMemoryStore()
	case kIndexed:
		fresh = factstore.NewIndexedInMemoryStore()
	case kMulti:
		fresh = factstore.NewMultiIndexedInMemoryStore()
	case kArray:
		fresh = factstore.NewMultiIndexedArrayInMemoryStore()
	case kTemporal:
		fresh = factstore.NewTemporalFactStoreAdapter(factstore.NewTemporalStore())
	default:
		e.f.Fatalf("harness: a copy cannot be made into a store of kind %q", kind)
	}
	e.guard("Merge", func() { fresh.Merge(st) })
	cm := modelOf(m, kind)
	what := lazy(func() string { return when.String() + ": fresh " + kind + " store after Merge(store)" })
	e.scan(fresh, cm, what.String)
	e.checkPreds(fresh, cm, what)
	var n int
	e.guard("EstimateFactCount", func() { n = fresh.EstimateFactCount() })
	if n != cm.size() {
		e.run.Failf(e.f, "%s: EstimateFactCount() = %d, the set has %d atoms: %s", what, n, cm.size(), e.showAll(cm.all()))
	}
}

// panicFailer serves excludeK08, which only runs the models.
type panicFailer struct{}

func (panicFailer) Fatalf(format string, args ...any) { panic(fmt.Sprintf(format, args...)) }
func (panicFailer) Logf(format string, args ...any)   {}

// excludeK08 is the known-finding exclusion: it returns c without the set-up facts and steps that would
// make a store with a hash-keyed container handle an atom whose Atom.Hash() equals that of a different
// atom the store holds (in any layer), and the number of facts / steps removed. It runs the set models
// only (the same transitions as check), so that it knows what each store holds at each step. The result
// is an ordinary case: check and replays execute it literally.
func excludeK08(c Case) (Case, int) {
	e := newEnv(nil, panicFailer{}, c)
	hashes := map[string]uint64{}
	hash := func(a matom) uint64 {
		h, ok := hashes[a.key]
		if !ok {
			h = e.build(a).Hash()
			hashes[a.key] = h
		}
		return h
	}
	// collides: m holds a different atom with the same hash
	collides := func(m *model, a matom) bool {
		if !m.hashKeyed {
			return false
		}
		for _, b := range m.all() {
			if b.key != a.key && hash(b) == hash(a) {
				return true
			}
		}
		return false
	}
	dropped := 0
	out := Case{Dom: c.Dom, Observe: c.Observe}
	models := make([]*model, len(c.Stores))
	for i := range c.Stores {
		s := cloneStore(c.Stores[i])
		m := newModel(s)
		models[i] = m
		drop := map[*Store]map[int]bool{}
		walkInits(&s, true, func(node *Store, k int, writable bool) {
			a := e.matom(node.Init[k])
			if collides(m, a) {
				if drop[node] == nil {
					drop[node] = map[int]bool{}
				}
				drop[node][k] = true
				dropped++
				return
			}
			m.setup(a, writable)
		})
		for node, ks := range drop {
			var keep []Atom
			for k, a := range node.Init {
				if !ks[k] {
					keep = append(keep, a)
				}
			}
			node.Init = keep
		}
		out.Stores = append(out.Stores, s)
	}
	for _, s := range c.Steps {
		if s.On < 0 || s.On >= len(models) {
			out.Steps = append(out.Steps, s)
			continue
		}
		m := models[s.On]
		switch s.Op {
		case "add", "remove", "contains":
			if s.Atom == nil {
				break
			}
			a := e.matom(*s.Atom)
			if collides(m, a) {
				dropped++
				continue
			}
			if s.Op == "add" {
				m.add(a)
			} else if s.Op == "remove" && m.canRemove {
				m.remove(a)
			}
		case "merge":
			if s.From < 0 || s.From >= len(models) || s.From == s.On {
				break
			}
			src := models[s.From]
			bad := false
			if m.hashKeyed {
				seen := map[uint64]string{}
				for _, a := range src.all() {
					if k, ok := seen[hash(a)]; (ok && k != a.key) || collides(m, a) {
						bad = true
						break
					}
					seen[hash(a)] = a.key
				}
			}
			if bad {
				dropped++
				continue
			}
			m.merge(src)
		}
		out.Steps = append(out.Steps, s)
	}
	return out, dropped
}

func cloneStore(s Store) Store {
	c := s
	c.Init = append([]Atom(nil), s.Init...)
	c.Reads = nil
	for _, r := range s.Reads {
		c.Reads = append(c.Reads, cloneStore(r))
	}
	if s.Base != nil {
		b := cloneStore(*s.Base)
		c.Base = &b
	}
	return c
}

func TestC06(t *testing.T) {
	run := stats.Begin("C06", "TestC06")
	defer run.Finish(t)
	rapid.Check(t, func(rt *rapid.T) {
		c := genCase(rt)
		dropped := 0
		if stats.Exclusion(exclK08) {
			c, dropped = excludeK08(c)
		}
		run.Current(c)
		v := check(run, rt, c)
		for i := 0; i < dropped; i++ {
			run.Excluded(exclK08 + ":step-or-fact-with-hash-equal-atom-on-hash-keyed-store")
		}
		run.Case(v.nontrivial, c.hash(), v.labels...)
		if v.nontrivial {
			run.Sample(c.Stores[0].Kind, c)
		}
	})
}

func TestReplay(t *testing.T) {
	var c Case
	if !stats.LoadReplay(t, &c) {
		return
	}
	run := stats.Begin("C06", "TestReplay")
	check(run, t, c)
}

// lazy is a message prefix that is only formatted when a failure is reported.
type lazy func() string

func (l lazy) String() string { return l() }
