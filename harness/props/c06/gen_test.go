package c06

import (
	"fmt"
	"sort"

	"pgregory.net/rapid"
	"verif/val"
)

var stock = []val.V{
	val.I(1), val.I(2), val.I(3), val.N("/a"), val.N("/b"), val.S("a"), val.S("b"), val.F(1.5),
	val.L(val.I(1), val.I(2)), val.P(val.N("/a"), val.I(1)),
}

// twinGroups are constants of different types with the same library hash (the hash of a number, time or
// duration is its payload; names, strings and byte strings hash their text).
func twinGroups(t *rapid.T) [][]val.V {
	n := rapid.SampledFrom([]int64{5, 0, 1, 2, 1000000000}).Draw(t, "twinpayload")
	txt := rapid.SampledFrom([]string{"/a", "/b", "/foo"}).Draw(t, "twintext")
	return [][]val.V{
		{val.I(n), val.D(n), val.T(n)},
		{val.N(txt), val.S(txt), val.B([]byte(txt))},
	}
}

type gen struct {
	t         *rapid.T
	n         int     // domain size
	twins     [][]int // per domain index: the other indices with the same library hash
	twinIdx   []int   // indices that have a twin
	stores    []Store
	canRemove []bool
	mentioned []Atom   // atoms that occurred so far (to make hits likely)
	present   [][]Atom // per store, guess: atoms it holds through adds and merges
	removed   [][]Atom // per store, guess: atoms removed
	baseAtoms [][]Atom // per store: atoms of read-only layers
	cur       int      // store being built
	// after a merge: the two stores and the predicates involved, to provoke mutations right after it
	hotStores []int
	hotAtoms  []Atom
	hotLeft   int
	// guess of what each store holds outside its read-only layers, by atomID (adds, removes, merges)
	held []map[string]Atom
	// tlayered: the store is a temporal adapter over temporal layers (adds of layer atoms are interesting)
	tlayered []bool
	observe  string // the observation policy of the case
	// predicate churn: after a listing of store churnOn, remove the only atom of a predicate (stage 1), add
	// the first atom of a predicate the store does not have (stage 2), then let some consumer list the
	// predicates again (stage 3) - the number of predicates is the same, the predicates are not.
	churnOn, churnStage int
}

func atomID(a Atom) string { return fmt.Sprint(a.P, a.A) }

// genDomain draws 1-8 distinct values: usually one or two groups of hash twins of different types, now and
// then a group of val.Colliders() or a value together with the number that is its hash, and stock / random
// values.
func genDomain(t *rapid.T) []val.V {
	n := rapid.IntRange(1, 8).Draw(t, "domsize")
	var dom []val.V
	keys := map[string]bool{}
	add := func(v val.V) {
		k := v.Key()
		if keys[k] || len(dom) >= 9 {
			return
		}
		keys[k] = true
		dom = append(dom, v)
	}
	group := func(g []val.V) {
		k := rapid.IntRange(2, len(g)).Draw(t, "groupcount")
		off := rapid.IntRange(0, len(g)-1).Draw(t, "groupoff")
		for i := 0; i < k; i++ {
			add(g[(off+i)%len(g)])
		}
	}
	tg := twinGroups(t)
	switch rapid.IntRange(0, 9).Draw(t, "twinmode") {
	case 0, 1, 2:
		group(tg[0])
	case 3, 4, 5:
		group(tg[1])
	case 6, 7:
		group(tg[0])
		group(tg[1])
	}
	switch rapid.IntRange(0, 9).Draw(t, "collmode") {
	case 0:
		// a random value and the number that is its hash
		v := val.Gen(val.Options{MaxDepth: 2, NoDupKeys: true}).Draw(t, "collbase")
		add(v)
		add(val.I(int64(v.Build().Hash())))
	case 1, 2:
		groups := val.Colliders()
		group(groups[rapid.IntRange(0, len(groups)-1).Draw(t, "collgroup")])
	}
	for tries := 0; len(dom) < n && tries < 12; tries++ {
		switch rapid.IntRange(0, 3).Draw(t, "valmode") {
		case 0, 1:
			add(rapid.SampledFrom(stock).Draw(t, "stock"))
		case 2:
			add(val.Gen(val.Options{MaxDepth: 2, NoDupKeys: true}).Draw(t, "value"))
		default:
			add(val.GenScalar(val.Options{}).Draw(t, "scalar"))
		}
	}
	if len(dom) == 0 {
		dom = append(dom, val.I(1))
	}
	return dom
}

// arg draws a domain index; values that have a hash twin are preferred, most of all in column 0.
func (g *gen) arg(col int) int {
	if len(g.twinIdx) > 0 {
		w := rapid.IntRange(0, 9).Draw(g.t, "twinarg")
		if w < 4 || (col == 0 && w < 7) {
			return g.twinIdx[rapid.IntRange(0, len(g.twinIdx)-1).Draw(g.t, "twinargidx")]
		}
	}
	return rapid.IntRange(0, g.n-1).Draw(g.t, "arg")
}

func (g *gen) freshAtomOf(p int) Atom {
	a := Atom{P: p}
	for i := 0; i < preds[p].Arity; i++ {
		a.A = append(a.A, g.arg(i))
	}
	return a
}

func (g *gen) freshAtom() Atom {
	// weights: arity 0 rare, arities 1-3 common
	return g.freshAtomOf(rapid.SampledFrom([]int{0, 1, 1, 2, 2, 2, 3, 4, 4, 4, 5, 5, 6, 7, 7}).Draw(g.t, "pred"))
}

func (g *gen) pick(list []Atom, label string) Atom {
	return list[rapid.IntRange(0, len(list)-1).Draw(g.t, label)]
}

func (g *gen) mention(a Atom) Atom {
	g.mentioned = append(g.mentioned, a)
	return a
}

type pref struct {
	list []Atom
	pct  int
}

// atom draws an atom, preferring (in this order, by the given percentages) the lists given.
func (g *gen) atom(label string, prefs ...pref) Atom {
	w := rapid.IntRange(0, 99).Draw(g.t, label)
	acc := 0
	for _, p := range prefs {
		acc += p.pct
		if w < acc && len(p.list) > 0 {
			return g.mention(g.pick(p.list, label+"-idx"))
		}
	}
	return g.mention(g.freshAtom())
}

func (g *gen) leaf(needRemoveType bool) string {
	ks := []string{kSimple, kIndexed, kMulti, kArray}
	if !needRemoveType {
		ks = append(ks, kTemporal, kTemporalAt)
	}
	return rapid.SampledFrom(ks).Draw(g.t, "leaf")
}

// inits draws up to max atoms that no layer of the tree holds yet (layers are disjoint by construction).
func (g *gen) inits(max int, used map[string]bool, base bool) []Atom {
	n := rapid.IntRange(0, max).Draw(g.t, "ninit")
	var res []Atom
	for i := 0; i < n; i++ {
		a := g.atom("init", pref{g.mentioned, 25})
		if used[atomID(a)] {
			continue
		}
		used[atomID(a)] = true
		res = append(res, a)
		if base {
			g.baseAtoms[g.cur] = append(g.baseAtoms[g.cur], a)
		} else {
			g.present[g.cur] = append(g.present[g.cur], a)
			g.held[g.cur][atomID(a)] = a
		}
	}
	return res
}

// ivContaining / ivAny: interval codes (ivTable) that contain the reference instant / all of them.
var ivContaining, ivAny = func() (c, a []int) {
	for i, iv := range ivTable {
		a = append(a, i)
		if iv.contains {
			c = append(c, i)
		}
	}
	return
}()

// tinits draws the facts of a temporal layer: 1-5 atoms, most of them of one predicate (so that atoms of the
// same predicate are streamed between the copies of an atom that two layers hold), each with 1-3 intervals.
// Atoms of the layer below (lower) are picked on purpose: the layers of one adapter may overlap. Other
// atoms are new to the whole tree.
func (g *gen) tinits(used map[string]bool, at bool, lower []Atom) []Atom {
	lp := rapid.SampledFrom([]int{1, 1, 2, 2, 3, 4, 5, 0, 7}).Draw(g.t, "tlayerpred")
	n := rapid.IntRange(1, 5).Draw(g.t, "ntinit")
	var res []Atom
	mine := map[string]bool{}
	for i := 0; i < n; i++ {
		var a Atom
		fromLower := false
		switch w := rapid.IntRange(0, 99).Draw(g.t, "tinit"); {
		case w < 45 && len(lower) > 0:
			a = g.pick(lower, "tinit-lower")
			a.Iv = nil
			fromLower = true
		case w < 80:
			a = g.mention(g.freshAtomOf(lp))
		default:
			a = g.atom("init", pref{g.mentioned, 25})
		}
		id := atomID(a)
		if mine[id] || (used[id] && !fromLower) {
			continue
		}
		mine[id] = true
		used[id] = true
		k := rapid.IntRange(1, 3).Draw(g.t, "nintervals")
		for j := 0; j < k; j++ {
			from := ivAny
			if at && j == 0 {
				from = ivContaining
			}
			a.Iv = append(a.Iv, rapid.SampledFrom(from).Draw(g.t, "interval"))
		}
		res = append(res, a)
		if !fromLower {
			g.baseAtoms[g.cur] = append(g.baseAtoms[g.cur], Atom{P: a.P, A: a.A})
		}
	}
	return res
}

// tlayers draws the temporal layers below an adapter: one TemporalStore, in a third of the cases with a
// TeeingTemporalStore layer on top of it (two pushed source fragments).
func (g *gen) tlayers(used map[string]bool, at bool) *Store {
	l := Store{Kind: kTLayer, Init: g.tinits(used, at, nil)}
	if rapid.IntRange(0, 2).Draw(g.t, "tlayer2") == 0 {
		l = Store{Kind: kTLayer, Base: &Store{Kind: kTLayer, Init: l.Init}, Init: g.tinits(used, at, l.Init)}
	}
	return &l
}

// store draws a configuration. kind "" = any. removable: the result must implement FactStoreWithRemove
// (it becomes the base of a ConcurrentFactStore). base: the node is in a read-only position.
func (g *gen) store(kind string, depth int, removable, base bool, used map[string]bool, maxInit int) Store {
	if kind == "" {
		if depth <= 0 {
			kind = "leaf"
		} else {
			kind = rapid.SampledFrom([]string{"leaf", "leaf", kMerged, kTeeing, kConcurrent}).Draw(g.t, "shape")
		}
	}
	var s Store
	switch kind {
	case kMerged:
		s.Kind = kMerged
		k := rapid.IntRange(1, 2).Draw(g.t, "nreads")
		for i := 0; i < k; i++ {
			s.Reads = append(s.Reads, g.store("", depth-1, false, true, used, 4))
		}
		w := g.store("", depth-1, false, base, used, 2)
		s.Base = &w
	case kTeeing:
		s.Kind = kTeeing
		b := g.store("", depth-1, false, true, used, 4)
		s.Base = &b
	case kConcurrent:
		s.Kind = kConcurrent
		shape := "leaf"
		if depth > 1 {
			shape = rapid.SampledFrom([]string{"leaf", "leaf", kMerged, kTeeing}).Draw(g.t, "cbase")
		}
		b := g.store(shape, depth-1, true, base, used, 0)
		s.Base = &b
	case "leaf":
		s.Kind = g.leaf(removable)
	default:
		s.Kind = kind
	}
	if s.Kind == kTemporalAt {
		s.At = rapid.SampledFrom([]int64{0, 1, -1, 1704103200000000000}).Draw(g.t, "at")
	}
	if (s.Kind == kTemporal || s.Kind == kTemporalAt) && rapid.IntRange(0, 9).Draw(g.t, "tlayered") < 6 {
		s.Base = g.tlayers(used, s.Kind == kTemporalAt)
	}
	if maxInit > 0 {
		s.Init = g.inits(maxInit, used, base)
	}
	return s
}

// cols draws the columns of a query on predicate p.
//
//	mode 1: constants only after the first column (the first is a variable or wildcard)
//	mode 2: one variable in two columns
//	mode 3: as a stored atom, but one column (mostly the first) carries a hash twin of the stored value
//	mode 4: exactly one constant column, anywhere
//	otherwise free
func (g *gen) cols(on, p int, mode int) []Col {
	ar := preds[p].Arity
	cols := make([]Col, ar)
	// a stored atom of the predicate, so that constants hit
	var hint *Atom
	var cands []Atom
	for _, a := range g.present[on] {
		if a.P == p {
			cands = append(cands, a)
		}
	}
	if len(cands) == 0 {
		for _, a := range g.mentioned {
			if a.P == p {
				cands = append(cands, a)
			}
		}
	}
	if len(cands) > 0 {
		h := g.pick(cands, "hint")
		hint = &h
	}
	constant := func(i int) Col {
		if hint != nil && rapid.IntRange(0, 9).Draw(g.t, "usehint") < 8 {
			return Col{K: "c", I: hint.A[i]}
		}
		return Col{K: "c", I: g.arg(i)}
	}
	for i := 0; i < ar; i++ {
		switch w := rapid.IntRange(0, 9).Draw(g.t, "col"); {
		case w < 4 && !(mode == 1 && i == 0):
			cols[i] = constant(i)
		case w < 8:
			cols[i] = Col{K: "v", I: rapid.IntRange(0, 1).Draw(g.t, "var")}
		default:
			cols[i] = Col{K: "_"}
		}
	}
	if mode == 1 && ar >= 2 {
		j := rapid.IntRange(1, ar-1).Draw(g.t, "constcol")
		cols[j] = constant(j)
	}
	if mode == 4 && ar >= 2 {
		// exactly one constant, in any column (late columns of wide predicates included)
		j := rapid.IntRange(0, ar-1).Draw(g.t, "onlyconst")
		for i := range cols {
			if i != j && cols[i].K == "c" {
				cols[i] = Col{K: "_"}
			}
		}
		cols[j] = constant(j)
	}
	if mode == 2 && ar >= 2 {
		j := rapid.IntRange(0, ar-2).Draw(g.t, "rep1")
		k := rapid.IntRange(j+1, ar-1).Draw(g.t, "rep2")
		cols[j] = Col{K: "v", I: 0}
		cols[k] = Col{K: "v", I: 0}
	}
	if mode == 3 && ar >= 1 && hint != nil {
		j := 0
		if rapid.IntRange(0, 9).Draw(g.t, "twincol0") >= 6 {
			j = rapid.IntRange(0, ar-1).Draw(g.t, "twincol")
		}
		if tw := g.twins[hint.A[j]]; len(tw) > 0 {
			cols[j] = Col{K: "c", I: tw[rapid.IntRange(0, len(tw)-1).Draw(g.t, "twin")]}
			// the other columns agree with the stored atom or are open
			for i := 0; i < ar; i++ {
				if i != j && cols[i].K == "c" {
					cols[i] = Col{K: "c", I: hint.A[i]}
				}
			}
		}
	}
	return cols
}

var topKinds = []string{kSimple, kIndexed, kMulti, kArray, kMerged, kTeeing, kConcurrent, kTemporal, kTemporalAt}

// secondary stores: plain stores most of the time (they are merge sources and merge targets)
var secondaryKinds = []string{kSimple, kSimple, kIndexed, kIndexed, kMulti, kMulti, kArray, kArray, kTemporal, kTemporalAt, kMerged, kTeeing, kConcurrent}

func genCase(t *rapid.T) Case {
	dom := genDomain(t)
	g := &gen{t: t, n: len(dom)}
	// hash twins: by the library hash (the generator may look at it, the oracle does not)
	hs := make([]uint64, len(dom))
	for i, v := range dom {
		hs[i] = v.Build().Hash()
	}
	g.twins = make([][]int, len(dom))
	for i := range dom {
		for j := range dom {
			if i != j && hs[i] == hs[j] {
				g.twins[i] = append(g.twins[i], j)
			}
		}
		if len(g.twins[i]) > 0 {
			g.twinIdx = append(g.twinIdx, i)
		}
	}
	c := Case{Dom: dom}
	// when the stores are read back: after every step, at generated observe steps, at the end only
	c.Observe = rapid.SampledFrom([]string{obsSteps, obsEvery, obsEnd, obsEvery, obsSteps, obsEvery, obsSteps, obsEnd, obsEvery, obsSteps}).Draw(t, "observe")
	g.observe = c.Observe

	nsec := rapid.IntRange(1, 3).Draw(t, "nsecondary")
	for i := 0; i <= nsec; i++ {
		g.cur = i
		g.present = append(g.present, nil)
		g.removed = append(g.removed, nil)
		g.baseAtoms = append(g.baseAtoms, nil)
		g.held = append(g.held, map[string]Atom{})
		var s Store
		if i == 0 {
			s = g.store(rapid.SampledFrom(topKinds).Draw(t, "kind"), 2, false, false, map[string]bool{}, 0)
		} else {
			s = g.store(rapid.SampledFrom(secondaryKinds).Draw(t, "skind"), 1, false, false, map[string]bool{}, 3)
		}
		g.stores = append(g.stores, s)
		g.canRemove = append(g.canRemove, supportsRemove(s))
		g.tlayered = append(g.tlayered, (s.Kind == kTemporal || s.Kind == kTemporalAt) && s.Base != nil)
	}
	c.Stores = g.stores

	// Blocks of steps: rapid can delete any step or block while shrinking, and the lengths are not skewed
	// towards very short histories (about 25 steps on average).
	blocks := rapid.SliceOfN(rapid.SliceOfN(rapid.Custom(func(st *rapid.T) Step {
		g.t = st
		return g.step()
	}), 0, 16), 2, 8).Draw(t, "steps")
	g.t = t
	for _, b := range blocks {
		c.Steps = append(c.Steps, b...)
	}
	return c
}

// target draws the store a step acts on: the primary about half of the time.
func (g *gen) target() int {
	if rapid.IntRange(0, 9).Draw(g.t, "onprimary") < 5 {
		return 0
	}
	return rapid.IntRange(1, len(g.stores)-1).Draw(g.t, "on")
}

// noteAdd / noteRemove / noteMerge keep the guess of what each store holds.
func (g *gen) noteAdd(on int, a Atom) {
	g.present[on] = append(g.present[on], a)
	g.held[on][atomID(a)] = a
}

func (g *gen) noteRemove(on int, a Atom) {
	g.removed[on] = append(g.removed[on], a)
	if g.canRemove[on] {
		delete(g.held[on], atomID(a))
	}
}

// predCounts: per predicate the number of atoms store on is believed to show.
func (g *gen) predCounts(on int) []int {
	n := make([]int, len(preds))
	seen := map[string]bool{}
	for id, a := range g.held[on] {
		seen[id] = true
		n[a.P]++
	}
	for _, a := range g.baseAtoms[on] {
		if !seen[atomID(a)] {
			seen[atomID(a)] = true
			n[a.P]++
		}
	}
	return n
}

// sortedHeld returns the guessed atoms of the write layer in a fixed order (draws must not depend on map order).
func (g *gen) sortedHeld(on int) []Atom {
	ids := make([]string, 0, len(g.held[on]))
	for id := range g.held[on] {
		ids = append(ids, id)
	}
	sort.Strings(ids)
	res := make([]Atom, len(ids))
	for i, id := range ids {
		res[i] = g.held[on][id]
	}
	return res
}

// listedBy is called when the step just drawn makes some consumer list the predicates of store x: in 40% of
// the cases (where the store can remove, and the harness does not list after every step anyway) a predicate
// churn follows.
func (g *gen) listedBy(x int) {
	if g.observe != obsEvery && g.churnStage == 0 && g.canRemove[x] && rapid.IntRange(0, 9).Draw(g.t, "churn") < 4 {
		g.churnOn, g.churnStage = x, 1
	}
}

// observeStep draws an observation of store on.
func (g *gen) observeStep(on int) Step {
	hows := []string{howScan, howScan, howScan, howAll, howEnum, howEnum, howCopy, howCopy, howCopy, howCopy}
	if g.observe == obsEvery {
		// the full scan happens anyway
		hows = []string{howEnum, howCopy, howCopy}
	}
	s := Step{Op: "observe", On: on, How: rapid.SampledFrom(hows).Draw(g.t, "how")}
	if s.How == howCopy {
		// K08: a hash-keyed copy must not receive two atoms with equal Atom.Hash(). A store with a hash-keyed
		// container never holds such a pair while the exclusion is active; a store without one (array only)
		// can, unless the domain has no hash-equal values.
		s.Into = kArray
		if hashKeyed(g.stores[on]) || len(g.twinIdx) == 0 {
			s.Into = rapid.SampledFrom([]string{kSimple, kIndexed, kMulti, kArray, kTemporal}).Draw(g.t, "into")
		}
	}
	return s
}

// lister draws a step that makes some consumer list the predicates of store x.
func (g *gen) lister(x int) Step {
	switch w := rapid.IntRange(0, 9).Draw(g.t, "lister"); {
	case w < 3:
		return Step{Op: "preds", On: x}
	case w < 6 && g.observe != obsEnd:
		return g.observeStep(x)
	}
	into := (x + rapid.IntRange(1, len(g.stores)-1).Draw(g.t, "listinto")) % len(g.stores)
	return g.mergeStep(into, x)
}

func (g *gen) mergeStep(on, from int) Step {
	src := append(append([]Atom(nil), g.present[from]...), g.baseAtoms[from]...)
	g.present[on] = append(g.present[on], src...)
	for id, a := range g.held[from] {
		g.held[on][id] = a
	}
	for _, a := range g.baseAtoms[from] {
		g.held[on][atomID(a)] = a
	}
	g.hotStores = []int{from, on}
	g.hotAtoms = src
	g.hotLeft = 3
	return Step{Op: "merge", On: on, From: from}
}

// churnStep continues a predicate churn on store churnOn; ok = false: nothing to do at this stage.
func (g *gen) churnStep() (Step, bool) {
	x := g.churnOn
	counts := g.predCounts(x)
	switch g.churnStage {
	case 1:
		var single []Atom
		for _, a := range g.sortedHeld(x) {
			if counts[a.P] == 1 {
				single = append(single, a)
			}
		}
		if len(single) == 0 {
			g.churnStage = 0
			return Step{}, false
		}
		g.churnStage = 2
		a := g.pick(single, "churn-remove")
		g.noteRemove(x, a)
		return Step{Op: "remove", On: x, Atom: &a}, true
	case 2:
		var absent []int
		for p, n := range counts {
			if n == 0 {
				absent = append(absent, p)
			}
		}
		if len(absent) == 0 {
			g.churnStage = 0
			return Step{}, false
		}
		g.churnStage = 3
		a := g.mention(g.freshAtomOf(absent[rapid.IntRange(0, len(absent)-1).Draw(g.t, "churn-pred")]))
		g.noteAdd(x, a)
		return Step{Op: "add", On: x, Atom: &a}, true
	default:
		g.churnStage = 0
		if rapid.IntRange(0, 9).Draw(g.t, "churn-list") < 7 {
			return g.lister(x), true
		}
		return Step{}, false
	}
}

// step draws one operation; the lists of mentioned / present / removed atoms make hits likely.
func (g *gen) step() Step {
	if g.churnStage > 0 {
		if s, ok := g.churnStep(); ok {
			return s
		}
	}
	// Right after a merge: change one of the two stores on a predicate that took part in it (a new atom of
	// such a predicate, or the removal of a merged atom), so that state shared between them shows up.
	if g.hotLeft > 0 && len(g.hotAtoms) > 0 && rapid.IntRange(0, 9).Draw(g.t, "hot") < 6 {
		g.hotLeft--
		on := g.hotStores[rapid.IntRange(0, 1).Draw(g.t, "hotstore")]
		h := g.pick(g.hotAtoms, "hotatom")
		if g.canRemove[on] && rapid.IntRange(0, 9).Draw(g.t, "hotremove") < 4 {
			g.noteRemove(on, h)
			return Step{Op: "remove", On: on, Atom: &h}
		}
		a := g.mention(g.freshAtomOf(h.P))
		g.noteAdd(on, a)
		return Step{Op: "add", On: on, Atom: &a}
	}
	on := g.target()
	// observations: frequent where they are the only read-back, now and then (other consumers) elsewhere
	obsPct := 0
	switch g.observe {
	case obsSteps:
		obsPct = 12
	case obsEvery:
		obsPct = 4
	}
	if rapid.IntRange(0, 99).Draw(g.t, "obs") < obsPct {
		g.listedBy(on)
		return g.observeStep(on)
	}
	var s Step
	switch w := rapid.IntRange(0, 99).Draw(g.t, "op"); {
	case w < 28:
		basePct := 10
		if g.tlayered[on] {
			basePct = 35 // atoms the temporal layers hold: the adapter writes them to the output layer as well
		}
		a := g.atom("add", pref{g.removed[on], 30}, pref{g.baseAtoms[on], basePct}, pref{g.mentioned, 15})
		s = Step{Op: "add", On: on, Atom: &a}
		g.noteAdd(on, a)
	case w < 43:
		if !g.canRemove[on] {
			a := g.atom("contains", pref{g.mentioned, 60})
			s = Step{Op: "contains", On: on, Atom: &a}
			break
		}
		a := g.atom("remove", pref{g.present[on], 65}, pref{g.baseAtoms[on], 15}, pref{g.mentioned, 5})
		s = Step{Op: "remove", On: on, Atom: &a}
		g.noteRemove(on, a)
	case w < 52:
		a := g.atom("contains", pref{g.present[on], 40}, pref{g.mentioned, 30})
		s = Step{Op: "contains", On: on, Atom: &a}
	case w < 77:
		mode := rapid.SampledFrom([]int{0, 0, 0, 1, 1, 2, 3, 3, 4}).Draw(g.t, "qmode")
		if len(g.twinIdx) == 0 && mode == 3 {
			mode = 0
		}
		p := rapid.SampledFrom([]int{0, 1, 2, 2, 2, 3, 4, 4, 4, 5, 5, 5, 6, 7, 7}).Draw(g.t, "qpred")
		if mode == 1 || mode == 2 || mode == 4 {
			p = rapid.SampledFrom([]int{2, 4, 5, 7, 7}).Draw(g.t, "qpred2")
		}
		var cands []Atom
		for _, a := range g.present[on] {
			if mode == 0 || (mode == 3 && len(a.A) >= 1) || len(a.A) >= 2 {
				cands = append(cands, a)
			}
		}
		if g.tlayered[on] {
			// the atoms of the temporal layers are what the adapter has to report once
			for _, a := range g.baseAtoms[on] {
				if mode == 0 || (mode == 3 && len(a.A) >= 1) || len(a.A) >= 2 {
					cands = append(cands, a)
				}
			}
		}
		if len(cands) > 0 && rapid.IntRange(0, 3).Draw(g.t, "qhit") > 0 {
			p = g.pick(cands, "qof").P
		}
		s = Step{Op: "query", On: on, Pred: p, Cols: g.cols(on, p, mode)}
	case w < 90:
		// merge: into the primary, out of the primary, or between secondary stores
		from := 0
		switch d := rapid.IntRange(0, 9).Draw(g.t, "mergedir"); {
		case d < 5 || (d >= 8 && len(g.stores) < 3):
			on = 0
			from = rapid.IntRange(1, len(g.stores)-1).Draw(g.t, "from")
		case d < 8:
			on = rapid.IntRange(1, len(g.stores)-1).Draw(g.t, "into")
			from = 0
		default:
			on = rapid.IntRange(1, len(g.stores)-1).Draw(g.t, "into")
			from = 1 + (on-1+rapid.IntRange(1, len(g.stores)-2).Draw(g.t, "fromoff"))%(len(g.stores)-1)
		}
		s = g.mergeStep(on, from)
		g.listedBy(from)
	case w < 95:
		s = Step{Op: "preds", On: on}
		g.listedBy(on)
	default:
		s = Step{Op: "count", On: on}
	}
	return s
}
