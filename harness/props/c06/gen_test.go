package c06

import (
	"fmt"

	"pgregory.net/rapid"
	"verif/val"
)

var stock = []val.V{
	val.I(1), val.I(2), val.I(3), val.N("/a"), val.N("/b"), val.S("a"), val.S("b"), val.F(1.5),
	val.L(val.I(1), val.I(2)), val.P(val.N("/a"), val.I(1)),
}

// twinGroups are constants of different types with the same library hash (the hash of a number, time or
// duration is its payload; names, strings and byte strings hash their text).
func twinGroups(t *rapid.T) [][]val.V {
	n := rapid.SampledFrom([]int64{5, 0, 1, 2, 1000000000}).Draw(t, "twinpayload")
	txt := rapid.SampledFrom([]string{"/a", "/b", "/foo"}).Draw(t, "twintext")
	return [][]val.V{
		{val.I(n), val.D(n), val.T(n)},
		{val.N(txt), val.S(txt), val.B([]byte(txt))},
	}
}

type gen struct {
	t         *rapid.T
	n         int     // domain size
	twins     [][]int // per domain index: the other indices with the same library hash
	twinIdx   []int   // indices that have a twin
	stores    []Store
	canRemove []bool
	mentioned []Atom   // atoms that occurred so far (to make hits likely)
	present   [][]Atom // per store, guess: atoms it holds through adds and merges
	removed   [][]Atom // per store, guess: atoms removed
	baseAtoms [][]Atom // per store: atoms of read-only layers
	cur       int      // store being built
	// after a merge: the two stores and the predicates involved, to provoke mutations right after it
	hotStores []int
	hotAtoms  []Atom
	hotLeft   int
}

func atomID(a Atom) string { return fmt.Sprint(a.P, a.A) }

// genDomain draws 1-8 distinct values: usually one or two groups of hash twins of different types, now and
// then a group of val.Colliders() or a value together with the number that is its hash, and stock / random
// values.
func genDomain(t *rapid.T) []val.V {
	n := rapid.IntRange(1, 8).Draw(t, "domsize")
	var dom []val.V
	keys := map[string]bool{}
	add := func(v val.V) {
		k := v.Key()
		if keys[k] || len(dom) >= 9 {
			return
		}
		keys[k] = true
		dom = append(dom, v)
	}
	group := func(g []val.V) {
		k := rapid.IntRange(2, len(g)).Draw(t, "groupcount")
		off := rapid.IntRange(0, len(g)-1).Draw(t, "groupoff")
		for i := 0; i < k; i++ {
			add(g[(off+i)%len(g)])
		}
	}
	tg := twinGroups(t)
	switch rapid.IntRange(0, 9).Draw(t, "twinmode") {
	case 0, 1, 2:
		group(tg[0])
	case 3, 4, 5:
		group(tg[1])
	case 6, 7:
		group(tg[0])
		group(tg[1])
	}
	switch rapid.IntRange(0, 9).Draw(t, "collmode") {
	case 0:
		// a random value and the number that is its hash
		v := val.Gen(val.Options{MaxDepth: 2, NoDupKeys: true}).Draw(t, "collbase")
		add(v)
		add(val.I(int64(v.Build().Hash())))
	case 1, 2:
		groups := val.Colliders()
		group(groups[rapid.IntRange(0, len(groups)-1).Draw(t, "collgroup")])
	}
	for tries := 0; len(dom) < n && tries < 12; tries++ {
		switch rapid.IntRange(0, 3).Draw(t, "valmode") {
		case 0, 1:
			add(rapid.SampledFrom(stock).Draw(t, "stock"))
		case 2:
			add(val.Gen(val.Options{MaxDepth: 2, NoDupKeys: true}).Draw(t, "value"))
		default:
			add(val.GenScalar(val.Options{}).Draw(t, "scalar"))
		}
	}
	if len(dom) == 0 {
		dom = append(dom, val.I(1))
	}
	return dom
}

// arg draws a domain index; values that have a hash twin are preferred, most of all in column 0.
func (g *gen) arg(col int) int {
	if len(g.twinIdx) > 0 {
		w := rapid.IntRange(0, 9).Draw(g.t, "twinarg")
		if w < 4 || (col == 0 && w < 7) {
			return g.twinIdx[rapid.IntRange(0, len(g.twinIdx)-1).Draw(g.t, "twinargidx")]
		}
	}
	return rapid.IntRange(0, g.n-1).Draw(g.t, "arg")
}

func (g *gen) freshAtomOf(p int) Atom {
	a := Atom{P: p}
	for i := 0; i < preds[p].Arity; i++ {
		a.A = append(a.A, g.arg(i))
	}
	return a
}

func (g *gen) freshAtom() Atom {
	// weights: arity 0 rare, arities 1-3 common
	return g.freshAtomOf(rapid.SampledFrom([]int{0, 1, 1, 2, 2, 2, 3, 4, 4, 4, 5, 5, 6, 7, 7}).Draw(g.t, "pred"))
}

func (g *gen) pick(list []Atom, label string) Atom {
	return list[rapid.IntRange(0, len(list)-1).Draw(g.t, label)]
}

func (g *gen) mention(a Atom) Atom {
	g.mentioned = append(g.mentioned, a)
	return a
}

type pref struct {
	list []Atom
	pct  int
}

// atom draws an atom, preferring (in this order, by the given percentages) the lists given.
func (g *gen) atom(label string, prefs ...pref) Atom {
	w := rapid.IntRange(0, 99).Draw(g.t, label)
	acc := 0
	for _, p := range prefs {
		acc += p.pct
		if w < acc && len(p.list) > 0 {
			return g.mention(g.pick(p.list, label+"-idx"))
		}
	}
	return g.mention(g.freshAtom())
}

func (g *gen) leaf(needRemoveType bool) string {
	ks := []string{kSimple, kIndexed, kMulti, kArray}
	if !needRemoveType {
		ks = append(ks, kTemporal, kTemporalAt)
	}
	return rapid.SampledFrom(ks).Draw(g.t, "leaf")
}

// inits draws up to max atoms that no layer of the tree holds yet (layers are disjoint by construction).
func (g *gen) inits(max int, used map[string]bool, base bool) []Atom {
	n := rapid.IntRange(0, max).Draw(g.t, "ninit")
	var res []Atom
	for i := 0; i < n; i++ {
		a := g.atom("init", pref{g.mentioned, 25})
		if used[atomID(a)] {
			continue
		}
		used[atomID(a)] = true
		res = append(res, a)
		if base {
			g.baseAtoms[g.cur] = append(g.baseAtoms[g.cur], a)
		} else {
			g.present[g.cur] = append(g.present[g.cur], a)
		}
	}
	return res
}

// store draws a configuration. kind "" = any. removable: the result must implement FactStoreWithRemove
// (it becomes the base of a ConcurrentFactStore). base: the node is in a read-only position.
func (g *gen) store(kind string, depth int, removable, base bool, used map[string]bool, maxInit int) Store {
	if kind == "" {
		if depth <= 0 {
			kind = "leaf"
		} else {
			kind = rapid.SampledFrom([]string{"leaf", "leaf", kMerged, kTeeing, kConcurrent}).Draw(g.t, "shape")
		}
	}
	var s Store
	switch kind {
	case kMerged:
		s.Kind = kMerged
		k := rapid.IntRange(1, 2).Draw(g.t, "nreads")
		for i := 0; i < k; i++ {
			s.Reads = append(s.Reads, g.store("", depth-1, false, true, used, 4))
		}
		w := g.store("", depth-1, false, base, used, 2)
		s.Base = &w
	case kTeeing:
		s.Kind = kTeeing
		b := g.store("", depth-1, false, true, used, 4)
		s.Base = &b
	case kConcurrent:
		s.Kind = kConcurrent
		shape := "leaf"
		if depth > 1 {
			shape = rapid.SampledFrom([]string{"leaf", "leaf", kMerged, kTeeing}).Draw(g.t, "cbase")
		}
		b := g.store(shape, depth-1, true, base, used, 0)
		s.Base = &b
	case "leaf":
		s.Kind = g.leaf(removable)
	default:
		s.Kind = kind
	}
	if s.Kind == kTemporalAt {
		s.At = rapid.SampledFrom([]int64{0, 1, -1, 1704103200000000000}).Draw(g.t, "at")
	}
	if maxInit > 0 {
		s.Init = g.inits(maxInit, used, base)
	}
	return s
}

// cols draws the columns of a query on predicate p.
//
//	mode 1: constants only after the first column (the first is a variable or wildcard)
//	mode 2: one variable in two columns
//	mode 3: as a stored atom, but one column (mostly the first) carries a hash twin of the stored value
//	mode 4: exactly one constant column, anywhere
//	otherwise free
func (g *gen) cols(on, p int, mode int) []Col {
	ar := preds[p].Arity
	cols := make([]Col, ar)
	// a stored atom of the predicate, so that constants hit
	var hint *Atom
	var cands []Atom
	for _, a := range g.present[on] {
		if a.P == p {
			cands = append(cands, a)
		}
	}
	if len(cands) == 0 {
		for _, a := range g.mentioned {
			if a.P == p {
				cands = append(cands, a)
			}
		}
	}
	if len(cands) > 0 {
		h := g.pick(cands, "hint")
		hint = &h
	}
	constant := func(i int) Col {
		if hint != nil && rapid.IntRange(0, 9).Draw(g.t, "usehint") < 8 {
			return Col{K: "c", I: hint.A[i]}
		}
		return Col{K: "c", I: g.arg(i)}
	}
	for i := 0; i < ar; i++ {
		switch w := rapid.IntRange(0, 9).Draw(g.t, "col"); {
		case w < 4 && !(mode == 1 && i == 0):
			cols[i] = constant(i)
		case w < 8:
			cols[i] = Col{K: "v", I: rapid.IntRange(0, 1).Draw(g.t, "var")}
		default:
			cols[i] = Col{K: "_"}
		}
	}
	if mode == 1 && ar >= 2 {
		j := rapid.IntRange(1, ar-1).Draw(g.t, "constcol")
		cols[j] = constant(j)
	}
	if mode == 4 && ar >= 2 {
		// exactly one constant, in any column (late columns of wide predicates included)
		j := rapid.IntRange(0, ar-1).Draw(g.t, "onlyconst")
		for i := range cols {
			if i != j && cols[i].K == "c" {
				cols[i] = Col{K: "_"}
			}
		}
		cols[j] = constant(j)
	}
	if mode == 2 && ar >= 2 {
		j := rapid.IntRange(0, ar-2).Draw(g.t, "rep1")
		k := rapid.IntRange(j+1, ar-1).Draw(g.t, "rep2")
		cols[j] = Col{K: "v", I: 0}
		cols[k] = Col{K: "v", I: 0}
	}
	if mode == 3 && ar >= 1 && hint != nil {
		j := 0
		if rapid.IntRange(0, 9).Draw(g.t, "twincol0") >= 6 {
			j = rapid.IntRange(0, ar-1).Draw(g.t, "twincol")
		}
		if tw := g.twins[hint.A[j]]; len(tw) > 0 {
			cols[j] = Col{K: "c", I: tw[rapid.IntRange(0, len(tw)-1).Draw(g.t, "twin")]}
			// the other columns agree with the stored atom or are open
			for i := 0; i < ar; i++ {
				if i != j && cols[i].K == "c" {
					cols[i] = Col{K: "c", I: hint.A[i]}
				}
			}
		}
	}
	return cols
}

var topKinds = []string{kSimple, kIndexed, kMulti, kArray, kMerged, kTeeing, kConcurrent, kTemporal, kTemporalAt}

// secondary stores: plain stores most of the time (they are merge sources and merge targets)
var secondaryKinds = []string{kSimple, kSimple, kIndexed, kIndexed, kMulti, kMulti, kArray, kArray, kTemporal, kTemporalAt, kMerged, kTeeing, kConcurrent}

func genCase(t *rapid.T) Case {
	dom := genDomain(t)
	g := &gen{t: t, n: len(dom)}
	// hash twins: by the library hash (the generator may look at it, the oracle does not)
	hs := make([]uint64, len(dom))
	for i, v := range dom {
		hs[i] = v.Build().Hash()
	}
	g.twins = make([][]int, len(dom))
	for i := range dom {
		for j := range dom {
			if i != j && hs[i] == hs[j] {
				g.twins[i] = append(g.twins[i], j)
			}
		}
		if len(g.twins[i]) > 0 {
			g.twinIdx = append(g.twinIdx, i)
		}
	}
	c := Case{Dom: dom}

	nsec := rapid.IntRange(1, 3).Draw(t, "nsecondary")
	for i := 0; i <= nsec; i++ {
		g.cur = i
		g.present = append(g.present, nil)
		g.removed = append(g.removed, nil)
		g.baseAtoms = append(g.baseAtoms, nil)
		var s Store
		if i == 0 {
			s = g.store(rapid.SampledFrom(topKinds).Draw(t, "kind"), 2, false, false, map[string]bool{}, 0)
		} else {
			s = g.store(rapid.SampledFrom(secondaryKinds).Draw(t, "skind"), 1, false, false, map[string]bool{}, 3)
		}
		g.stores = append(g.stores, s)
		g.canRemove = append(g.canRemove, supportsRemove(s))
	}
	c.Stores = g.stores

	// Blocks of steps: rapid can delete any step or block while shrinking, and the lengths are not skewed
	// towards very short histories (about 25 steps on average).
	blocks := rapid.SliceOfN(rapid.SliceOfN(rapid.Custom(func(st *rapid.T) Step {
		g.t = st
		return g.step()
	}), 0, 16), 2, 8).Draw(t, "steps")
	g.t = t
	for _, b := range blocks {
		c.Steps = append(c.Steps, b...)
	}
	return c
}

// target draws the store a step acts on: the primary about half of the time.
func (g *gen) target() int {
	if rapid.IntRange(0, 9).Draw(g.t, "onprimary") < 5 {
		return 0
	}
	return rapid.IntRange(1, len(g.stores)-1).Draw(g.t, "on")
}

// step draws one operation; the lists of mentioned / present / removed atoms make hits likely.
func (g *gen) step() Step {
	// Right after a merge: change one of the two stores on a predicate that took part in it (a new atom of
	// such a predicate, or the removal of a merged atom), so that state shared between them shows up.
	if g.hotLeft > 0 && len(g.hotAtoms) > 0 && rapid.IntRange(0, 9).Draw(g.t, "hot") < 6 {
		g.hotLeft--
		on := g.hotStores[rapid.IntRange(0, 1).Draw(g.t, "hotstore")]
		h := g.pick(g.hotAtoms, "hotatom")
		if g.canRemove[on] && rapid.IntRange(0, 9).Draw(g.t, "hotremove") < 4 {
			g.removed[on] = append(g.removed[on], h)
			return Step{Op: "remove", On: on, Atom: &h}
		}
		a := g.mention(g.freshAtomOf(h.P))
		g.present[on] = append(g.present[on], a)
		return Step{Op: "add", On: on, Atom: &a}
	}
	on := g.target()
	var s Step
	switch w := rapid.IntRange(0, 99).Draw(g.t, "op"); {
	case w < 28:
		a := g.atom("add", pref{g.removed[on], 30}, pref{g.baseAtoms[on], 10}, pref{g.mentioned, 15})
		s = Step{Op: "add", On: on, Atom: &a}
		g.present[on] = append(g.present[on], a)
	case w < 43:
		if !g.canRemove[on] {
			a := g.atom("contains", pref{g.mentioned, 60})
			s = Step{Op: "contains", On: on, Atom: &a}
			break
		}
		a := g.atom("remove", pref{g.present[on], 65}, pref{g.baseAtoms[on], 15}, pref{g.mentioned, 5})
		s = Step{Op: "remove", On: on, Atom: &a}
		g.removed[on] = append(g.removed[on], a)
	case w < 52:
		a := g.atom("contains", pref{g.present[on], 40}, pref{g.mentioned, 30})
		s = Step{Op: "contains", On: on, Atom: &a}
	case w < 77:
		mode := rapid.SampledFrom([]int{0, 0, 0, 1, 1, 2, 3, 3, 4}).Draw(g.t, "qmode")
		if len(g.twinIdx) == 0 && mode == 3 {
			mode = 0
		}
		p := rapid.SampledFrom([]int{0, 1, 2, 2, 2, 3, 4, 4, 4, 5, 5, 5, 6, 7, 7}).Draw(g.t, "qpred")
		if mode == 1 || mode == 2 || mode == 4 {
			p = rapid.SampledFrom([]int{2, 4, 5, 7, 7}).Draw(g.t, "qpred2")
		}
		var cands []Atom
		for _, a := range g.present[on] {
			if mode == 0 || (mode == 3 && len(a.A) >= 1) || len(a.A) >= 2 {
				cands = append(cands, a)
			}
		}
		if len(cands) > 0 && rapid.IntRange(0, 3).Draw(g.t, "qhit") > 0 {
			p = g.pick(cands, "qof").P
		}
		s = Step{Op: "query", On: on, Pred: p, Cols: g.cols(on, p, mode)}
	case w < 90:
		// merge: into the primary, out of the primary, or between secondary stores
		from := 0
		switch d := rapid.IntRange(0, 9).Draw(g.t, "mergedir"); {
		case d < 5 || (d >= 8 && len(g.stores) < 3):
			on = 0
			from = rapid.IntRange(1, len(g.stores)-1).Draw(g.t, "from")
		case d < 8:
			on = rapid.IntRange(1, len(g.stores)-1).Draw(g.t, "into")
			from = 0
		default:
			on = rapid.IntRange(1, len(g.stores)-1).Draw(g.t, "into")
			from = 1 + (on-1+rapid.IntRange(1, len(g.stores)-2).Draw(g.t, "fromoff"))%(len(g.stores)-1)
		}
		s = Step{Op: "merge", On: on, From: from}
		src := append(append([]Atom(nil), g.present[from]...), g.baseAtoms[from]...)
		g.present[on] = append(g.present[on], src...)
		g.hotStores = []int{from, on}
		g.hotAtoms = src
		g.hotLeft = 3
	case w < 95:
		s = Step{Op: "preds", On: on}
	default:
		s = Step{Op: "count", On: on}
	}
	return s
}
