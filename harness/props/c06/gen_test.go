package c06

import (
	"fmt"

	"pgregory.net/rapid"
	"verif/stats"
	"verif/val"
)

// genInfo carries what the generator did on behalf of the K08 exclusion (counted, not part of the case).
type genInfo struct {
	colliders  bool // hash-equal values are in the domain on purpose
	redirected bool // ... and therefore every store of the case is array-based (exclusion active)
	dropped    int  // values left out because their library hash equals that of another value (exclusion active)
}

var stock = []val.V{
	val.I(1), val.I(2), val.I(3), val.N("/a"), val.N("/b"), val.S("a"), val.S("b"), val.F(1.5),
	val.L(val.I(1), val.I(2)), val.P(val.N("/a"), val.I(1)),
}

type gen struct {
	t         *rapid.T
	n         int             // domain size
	arrayOnly bool            // every leaf store is a MultiIndexedArrayInMemoryStore
	used      map[string]bool // atoms placed in some layer of the store under test
	mentioned []Atom          // atoms that occurred so far (to make hits likely)
	present   []Atom          // guess: atoms added through the top-level store
	removed   []Atom          // guess: atoms removed
	baseAtoms []Atom          // atoms of read-only layers
	main      bool            // building the store under test (not a merge source)
}

func atomID(a Atom) string { return fmt.Sprint(a.P, a.A) }

// genDomain draws 2-6 distinct values. With colliders, a group of hash-equal values comes first. With
// filterHash (K08 exclusion active, hash-keyed stores possible) a value whose library hash equals that of
// an earlier value is left out: this is the exclusion, it is counted.
func genDomain(t *rapid.T, colliders, filterHash bool, info *genInfo) []val.V {
	n := rapid.IntRange(1, 6).Draw(t, "domsize")
	var dom []val.V
	keys := map[string]bool{}
	hashes := map[uint64]bool{}
	add := func(v val.V) {
		k := v.Key()
		if keys[k] {
			return
		}
		if filterHash {
			if collidingKeys(v) {
				// a map whose keys have equal hashes has no canonical representation (K22, property C08):
				// its hash may differ from build to build, so the filter below could not be trusted
				info.dropped++
				return
			}
			h := v.Build().Hash()
			if hashes[h] {
				info.dropped++
				return
			}
			hashes[h] = true
		}
		keys[k] = true
		dom = append(dom, v)
	}
	if colliders {
		groups := val.Colliders()
		switch rapid.IntRange(0, 4).Draw(t, "collmode") {
		case 0:
			// a random value and the number that is its hash
			v := val.Gen(val.Options{MaxDepth: 2, NoDupKeys: true}).Draw(t, "collbase")
			add(v)
			add(val.I(int64(v.Build().Hash())))
		case 1:
			// same payload under different types: the hash is the payload
			x := rapid.Int64Range(0, 3).Draw(t, "payload")
			add(val.I(x))
			add(val.T(x))
			add(val.D(x))
		default:
			g := groups[rapid.IntRange(0, len(groups)-1).Draw(t, "collgroup")]
			k := rapid.IntRange(2, len(g)).Draw(t, "collcount")
			off := rapid.IntRange(0, len(g)-1).Draw(t, "colloff")
			for i := 0; i < k; i++ {
				add(g[(off+i)%len(g)])
			}
		}
	}
	for tries := 0; len(dom) < n && tries < 12; tries++ {
		switch rapid.IntRange(0, 3).Draw(t, "valmode") {
		case 0, 1:
			add(rapid.SampledFrom(stock).Draw(t, "stock"))
		case 2:
			add(val.Gen(val.Options{MaxDepth: 2, NoDupKeys: true}).Draw(t, "value"))
		default:
			add(val.GenScalar(val.Options{}).Draw(t, "scalar"))
		}
	}
	if len(dom) == 0 {
		dom = append(dom, val.I(1))
	}
	return dom
}

// collidingKeys tells whether some map or struct inside v has two keys with the same library hash.
func collidingKeys(v val.V) bool {
	seen := map[uint64]bool{}
	for _, kv := range v.KV {
		h := kv[0].Build().Hash()
		if seen[h] {
			return true
		}
		seen[h] = true
		if collidingKeys(kv[0]) || collidingKeys(kv[1]) {
			return true
		}
	}
	for _, x := range v.E {
		if collidingKeys(x) {
			return true
		}
	}
	return false
}

func (g *gen) freshAtom() Atom {
	// weights: arity 0 rare, arities 1-3 common
	p := rapid.SampledFrom([]int{0, 1, 1, 2, 2, 2, 3, 4, 4, 4, 5, 5, 6}).Draw(g.t, "pred")
	a := Atom{P: p}
	for i := 0; i < preds[p].Arity; i++ {
		a.A = append(a.A, rapid.IntRange(0, g.n-1).Draw(g.t, "arg"))
	}
	return a
}

func (g *gen) pick(list []Atom, label string) Atom {
	return list[rapid.IntRange(0, len(list)-1).Draw(g.t, label)]
}

func (g *gen) mention(a Atom) Atom {
	g.mentioned = append(g.mentioned, a)
	return a
}

// atom draws an atom, preferring (in this order, by the given percentages) the lists given.
func (g *gen) atom(label string, prefs ...pref) Atom {
	w := rapid.IntRange(0, 99).Draw(g.t, label)
	acc := 0
	for _, p := range prefs {
		acc += p.pct
		if w < acc && len(p.list) > 0 {
			return g.mention(g.pick(p.list, label+"-idx"))
		}
	}
	return g.mention(g.freshAtom())
}

type pref struct {
	list []Atom
	pct  int
}

func (g *gen) leaf(needRemoveType bool) string {
	if g.arrayOnly {
		return kArray
	}
	ks := []string{kSimple, kIndexed, kMulti, kArray}
	if !needRemoveType {
		ks = append(ks, kTemporal, kTemporalAt)
	}
	return rapid.SampledFrom(ks).Draw(g.t, "leaf")
}

// inits draws up to n atoms that no layer of the tree holds yet (layers are disjoint by construction).
func (g *gen) inits(max int, used map[string]bool, base bool) []Atom {
	n := rapid.IntRange(0, max).Draw(g.t, "ninit")
	var res []Atom
	for i := 0; i < n; i++ {
		a := g.atom("init", pref{g.mentioned, 25})
		if used[atomID(a)] {
			continue
		}
		used[atomID(a)] = true
		res = append(res, a)
		if g.main && base {
			g.baseAtoms = append(g.baseAtoms, a)
		} else if g.main {
			g.present = append(g.present, a)
		}
	}
	return res
}

// store draws a configuration. kind "" = any. removable: the result must implement FactStoreWithRemove
// (it becomes the base of a ConcurrentFactStore). base: the node is in a read-only position.
func (g *gen) store(kind string, depth int, removable, base bool, used map[string]bool, maxInit int) Store {
	if kind == "" {
		if depth <= 0 {
			kind = "leaf"
		} else {
			kind = rapid.SampledFrom([]string{"leaf", "leaf", kMerged, kTeeing, kConcurrent}).Draw(g.t, "shape")
		}
	}
	var s Store
	switch kind {
	case kMerged:
		s.Kind = kMerged
		k := rapid.IntRange(1, 2).Draw(g.t, "nreads")
		for i := 0; i < k; i++ {
			s.Reads = append(s.Reads, g.store("", depth-1, false, true, used, 4))
		}
		w := g.store("", depth-1, false, base, used, 2)
		s.Base = &w
	case kTeeing:
		s.Kind = kTeeing
		b := g.store("", depth-1, false, true, used, 4)
		s.Base = &b
	case kConcurrent:
		s.Kind = kConcurrent
		shape := "leaf"
		if depth > 1 {
			shape = rapid.SampledFrom([]string{"leaf", "leaf", kMerged, kTeeing}).Draw(g.t, "cbase")
		}
		b := g.store(shape, depth-1, true, base, used, 0)
		s.Base = &b
	case "leaf":
		s.Kind = g.leaf(removable)
		if s.Kind == kTemporalAt {
			s.At = rapid.SampledFrom([]int64{0, 1, -1, 1704103200000000000}).Draw(g.t, "at")
		}
	default:
		s.Kind = kind
		if s.Kind == kTemporalAt {
			s.At = rapid.SampledFrom([]int64{0, 1, -1, 1704103200000000000}).Draw(g.t, "at")
		}
	}
	if maxInit > 0 {
		s.Init = g.inits(maxInit, used, base)
	}
	return s
}

// cols draws the columns of a query on predicate p. mode 1: constants only after the first column
// (the first is a variable or wildcard); mode 2: one variable in two columns; otherwise free.
func (g *gen) cols(p int, mode int) []Col {
	ar := preds[p].Arity
	cols := make([]Col, ar)
	// a stored atom of the predicate, so that constants hit
	var hint *Atom
	var cands []Atom
	for _, a := range g.mentioned {
		if a.P == p {
			cands = append(cands, a)
		}
	}
	if len(cands) > 0 {
		h := g.pick(cands, "hint")
		hint = &h
	}
	constant := func(i int) Col {
		if hint != nil && rapid.IntRange(0, 9).Draw(g.t, "usehint") < 8 {
			return Col{K: "c", I: hint.A[i]}
		}
		return Col{K: "c", I: rapid.IntRange(0, g.n-1).Draw(g.t, "constidx")}
	}
	for i := 0; i < ar; i++ {
		switch w := rapid.IntRange(0, 9).Draw(g.t, "col"); {
		case w < 4 && !(mode == 1 && i == 0):
			cols[i] = constant(i)
		case w < 8:
			cols[i] = Col{K: "v", I: rapid.IntRange(0, 1).Draw(g.t, "var")}
		default:
			cols[i] = Col{K: "_"}
		}
	}
	if mode == 1 && ar >= 2 {
		j := rapid.IntRange(1, ar-1).Draw(g.t, "constcol")
		cols[j] = constant(j)
	}
	if mode == 2 && ar >= 2 {
		j := rapid.IntRange(0, ar-2).Draw(g.t, "rep1")
		k := rapid.IntRange(j+1, ar-1).Draw(g.t, "rep2")
		cols[j] = Col{K: "v", I: 0}
		cols[k] = Col{K: "v", I: 0}
	}
	return cols
}

var topKinds = []string{kSimple, kIndexed, kMulti, kArray, kMerged, kTeeing, kConcurrent, kTemporal, kTemporalAt}

func genCase(t *rapid.T) (Case, genInfo) {
	var info genInfo
	excl := stats.Exclusion(exclK08)
	info.colliders = rapid.IntRange(0, 3).Draw(t, "colliders") == 0
	info.redirected = info.colliders && excl
	dom := genDomain(t, info.colliders, excl && !info.colliders, &info)
	g := &gen{t: t, n: len(dom), arrayOnly: info.redirected, used: map[string]bool{}}
	c := Case{Dom: dom}

	kinds := topKinds
	if g.arrayOnly {
		kinds = []string{kArray, kArray, kMerged, kTeeing, kConcurrent}
	}
	g.main = true
	c.Store = g.store(rapid.SampledFrom(kinds).Draw(t, "kind"), 2, false, false, g.used, 0)
	g.main = false
	canRemove := supportsRemove(c.Store)

	// Blocks of steps: rapid can delete any step or block while shrinking, and the lengths are not skewed
	// towards very short histories (about 30 steps on average, up to 160).
	blocks := rapid.SliceOfN(rapid.SliceOfN(rapid.Custom(func(st *rapid.T) Step {
		g.t = st
		return g.step(canRemove)
	}), 0, 16), 2, 10).Draw(t, "steps")
	for _, b := range blocks {
		c.Steps = append(c.Steps, b...)
	}
	g.t = t
	return c, info
}

func collectInits(s Store, into *[]Atom) {
	*into = append(*into, s.Init...)
	for _, r := range s.Reads {
		collectInits(r, into)
	}
	if s.Base != nil {
		collectInits(*s.Base, into)
	}
}

// step draws one operation; the lists of mentioned / present / removed atoms make hits likely.
func (g *gen) step(canRemove bool) Step {
	var s Step
	switch w := rapid.IntRange(0, 99).Draw(g.t, "op"); {
	case w < 30:
		a := g.atom("add", pref{g.removed, 30}, pref{g.baseAtoms, 10}, pref{g.mentioned, 15})
		s = Step{Op: "add", Atom: &a}
		g.present = append(g.present, a)
	case w < 46:
		if !canRemove {
			a := g.atom("contains", pref{g.mentioned, 60})
			s = Step{Op: "contains", Atom: &a}
			break
		}
		a := g.atom("remove", pref{g.present, 65}, pref{g.baseAtoms, 15}, pref{g.mentioned, 5})
		s = Step{Op: "remove", Atom: &a}
		g.removed = append(g.removed, a)
	case w < 56:
		a := g.atom("contains", pref{g.mentioned, 60})
		s = Step{Op: "contains", Atom: &a}
	case w < 78:
		mode := rapid.SampledFrom([]int{0, 0, 0, 1, 1, 2}).Draw(g.t, "qmode")
		p := rapid.SampledFrom([]int{0, 1, 2, 2, 2, 3, 4, 4, 4, 5, 5, 5, 6}).Draw(g.t, "qpred")
		if mode != 0 {
			p = rapid.SampledFrom([]int{2, 4, 5}).Draw(g.t, "qpred2")
		}
		var cands []Atom
		for _, a := range g.mentioned {
			if mode == 0 || preds[a.P].Arity >= 2 {
				cands = append(cands, a)
			}
		}
		if len(cands) > 0 && rapid.IntRange(0, 3).Draw(g.t, "qhit") > 0 {
			p = g.pick(cands, "qof").P
		}
		s = Step{Op: "query", Pred: p, Cols: g.cols(p, mode)}
	case w < 90:
		o := g.store("", 1, false, false, map[string]bool{}, 5)
		if len(o.Init) == 0 && o.Base == nil {
			a := g.atom("minit", pref{g.mentioned, 25})
			o.Init = []Atom{a}
		}
		s = Step{Op: "merge", Other: &o}
		collectInits(o, &g.present)
	case w < 95:
		s = Step{Op: "preds"}
	default:
		s = Step{Op: "count"}
	}
	return s
}
