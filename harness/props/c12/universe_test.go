package c12

import (
	"strings"

	"verif/val"
)

// The universe U of a case is a deterministic function of its type expressions: constants built to
// be members of each type ("members by construction"), one-step rewrites of them (a leaf replaced by
// a look-alike or a value of another kind, a field dropped or added, ...), and a fixed stock.
// Whether a constant IS a member is decided only by the library's TypeHandle.HasType.

const (
	maxUniverse = 320
	maxCands    = 10
	maxRewrites = 24
)

var stock = []val.V{
	val.I(0), val.S("s"), val.F(1.5), val.T(1), val.D(5), val.B([]byte("x")),
	val.N("/foo/x"), val.N("/foo/bar/x"), val.N("/foobar/x"), val.N("/a/x"), val.N("/bot/x"), val.N("/name/x"),
	val.N("/number/x"), val.N("/any/x"), val.N("/q"), val.N("/foo"), val.N("/a"),
	val.N("/number/n/x"), val.N("/string/s/x"), val.N("/bot/b/x"), val.N("/time/t/x"),
	val.L(), val.M(), val.St(), val.P(val.I(0), val.S("s")), val.L(val.I(0)), val.L(val.N("/foo/x")),
}

func capV(vs []val.V, n int) []val.V {
	if len(vs) > n {
		return vs[:n]
	}
	return vs
}

// vary returns build(firsts) and, per position, build with that position replaced by each of its
// further candidates (at most 3). nil if some position has no candidate.
func vary(lists [][]val.V, build func([]val.V) val.V) []val.V {
	firsts := make([]val.V, len(lists))
	for i, l := range lists {
		if len(l) == 0 {
			return nil
		}
		firsts[i] = l[0]
	}
	out := []val.V{build(append([]val.V{}, firsts...))}
	for i, l := range lists {
		for j := 1; j < len(l) && j <= 3; j++ {
			alt := append([]val.V{}, firsts...)
			alt[i] = l[j]
			out = append(out, build(alt))
		}
	}
	return out
}

// cands lists constants intended to be members of te.
func cands(te TE) []val.V {
	switch te.K {
	case kBase:
		switch te.S {
		case "/any":
			return []val.V{val.I(1), val.S("s"), val.N("/q"), val.N("/foo/x")}
		case "/bot":
			return nil
		case "/name":
			return []val.V{val.N("/foo/x"), val.N("/q"), val.N("/foobar/x")}
		case "/number":
			return []val.V{val.I(0), val.I(7)}
		case "/string":
			return []val.V{val.S("s"), val.S("")}
		case "/float64":
			return []val.V{val.F(1.5), val.F(2)}
		case "/time":
			return []val.V{val.T(1), val.T(1704103200000000000)}
		case "/duration":
			return []val.V{val.D(5), val.D(-1000000000)}
		case "/bytes":
			return []val.V{val.B([]byte("x"))}
		}
		return []val.V{val.N(te.S + "/x"), val.N(te.S + "/bar/x")}
	case kSing:
		return []val.V{*te.C}
	case kUnion:
		var out []val.V
		for r := 0; r < 3; r++ { // round robin so every alternative is represented
			for _, a := range te.A {
				if cs := cands(a); r < len(cs) {
					out = append(out, cs[r])
				}
			}
		}
		return capV(out, maxCands)
	case kPair, kTuple:
		lists := make([][]val.V, len(te.A))
		for i, a := range te.A {
			lists[i] = cands(a)
		}
		return capV(vary(lists, func(vs []val.V) val.V {
			res := val.P(vs[len(vs)-2], vs[len(vs)-1])
			for j := len(vs) - 3; j >= 0; j-- {
				res = val.P(vs[j], res)
			}
			return res
		}), maxCands)
	case kList:
		es := cands(te.A[0])
		out := []val.V{val.L()}
		if len(es) >= 1 {
			out = append(out, val.L(es[0]))
		}
		if len(es) >= 2 {
			out = append(out, val.L(es[0], es[1]), val.L(es[1]))
		}
		if len(es) >= 3 {
			out = append(out, val.L(es[2]))
		}
		// element type a union: the elements of a list choose their alternative independently
		for _, l := range mixedLists(te.A[0]) {
			out = append(out, val.L(l...))
		}
		return out
	case kMap:
		ks, vs := cands(te.A[0]), cands(te.A[1])
		out := []val.V{val.M()}
		if len(ks) == 0 || len(vs) == 0 {
			return out
		}
		out = append(out, val.M([2]val.V{ks[0], vs[0]}))
		if len(ks) >= 2 {
			out = append(out, val.M([2]val.V{ks[0], vs[0]}, [2]val.V{ks[1], vs[len(vs)-1]}), val.M([2]val.V{ks[1], vs[0]}))
		}
		if len(vs) >= 2 {
			out = append(out, val.M([2]val.V{ks[0], vs[1]}))
		}
		if len(ks) >= 3 {
			out = append(out, val.M([2]val.V{ks[2], vs[0]}))
		}
		// value type a union: entries with values of different alternatives (keys in rotation)
		if len(ks) >= 2 {
			for _, l := range mixedLists(te.A[1]) {
				var kv [][2]val.V
				for i, v := range l {
					if i < len(ks) {
						kv = append(kv, [2]val.V{ks[i], v})
					}
				}
				if len(kv) >= 2 {
					out = append(out, val.M(kv...))
				}
			}
		}
		return out
	case kStruct:
		return capV(structCands(nil, te), maxCands)
	case kTagged:
		var per [][]val.V
		for _, v := range te.F {
			tag := val.N(v.L)
			per = append(per, structCands(&[2]val.V{val.N(te.Tag), tag}, v.T))
		}
		var out []val.V
		for r := 0; r < 4; r++ {
			for _, cs := range per {
				if r < len(cs) {
					out = append(out, cs[r])
				}
			}
		}
		return capV(out, maxCands)
	}
	return nil
}

// mixedLists returns, for an element type that is a union of two or more alternatives, element
// lists of length two and three whose elements are members (by construction) of DIFFERENT
// alternatives - per pair of alternatives both orders, then three alternatives or two and one - and
// the homogeneous lists of two members of one alternative. Of every alternative a candidate is
// preferred that no earlier alternative offers, so that /foo/x does not stand for both /name and /foo.
func mixedLists(elem TE) [][]val.V {
	if elem.K != kUnion || len(elem.A) < 2 {
		return nil
	}
	var per [][]val.V // per alternative: its candidates, a distinguishing one first
	taken := map[string]bool{}
	for _, a := range elem.A {
		cs := append([]val.V{}, cands(a)...)
		if len(cs) == 0 {
			continue
		}
		for i, c := range cs {
			if !taken[c.Key()] {
				cs[0], cs[i] = cs[i], cs[0]
				break
			}
		}
		taken[cs[0].Key()] = true
		per = append(per, cs)
	}
	var out [][]val.V
	for i := 0; i < len(per); i++ {
		for j := i + 1; j < len(per); j++ {
			a, b := per[i][0], per[j][0]
			out = append(out, []val.V{a, b}, []val.V{b, a})
			if len(per) == 2 {
				out = append(out, []val.V{a, b, a}, []val.V{b, b, a})
			}
		}
	}
	if len(per) >= 3 {
		out = append(out, []val.V{per[0][0], per[1][0], per[2][0]}, []val.V{per[2][0], per[0][0], per[1][0]})
	}
	for _, cs := range per {
		if len(cs) >= 2 {
			out = append(out, []val.V{cs[0], cs[1]})
		}
	}
	return capLists(out, 8)
}

func capLists(ls [][]val.V, n int) [][]val.V {
	if len(ls) > n {
		return ls[:n]
	}
	return ls
}

// structCands builds struct constants with every declared field (required or opt), optionally
// preceded by a tag entry, and additionally the variant that leaves out the opt fields.
func structCands(tag *[2]val.V, te TE) []val.V {
	lists := make([][]val.V, len(te.F))
	hasOpt := false
	for i, f := range te.F {
		lists[i] = cands(f.T)
		hasOpt = hasOpt || f.Opt
	}
	mk := func(skipOpt bool) func(vs []val.V) val.V {
		return func(vs []val.V) val.V {
			var kv [][2]val.V
			if tag != nil {
				kv = append(kv, *tag)
			}
			for i, f := range te.F {
				if skipOpt && f.Opt {
					continue
				}
				kv = append(kv, [2]val.V{val.N(f.L), vs[i]})
			}
			return val.St(kv...)
		}
	}
	out := vary(lists, mk(false))
	if hasOpt && len(out) > 0 {
		firsts := make([]val.V, len(lists))
		for i := range lists {
			firsts[i] = lists[i][0]
		}
		out = append(out[:1:1], append([]val.V{mk(true)(firsts)}, out[1:]...)...)
	}
	return out
}

// local lists the one-step rewrites of the root of v.
func local(v val.V) []val.V {
	switch v.T {
	case val.Name:
		out := []val.V{val.N("/bot/x"), val.I(0)}
		if strings.HasPrefix(v.S, "/foo/") {
			out = append(out, val.N("/foobar"+v.S[len("/foo"):]))
		}
		if i := strings.LastIndex(v.S, "/"); i > 0 {
			out = append(out, val.N(v.S[:i]))
		} else {
			out = append(out, val.N(v.S+"/y"))
		}
		return append(out, val.S(v.S))
	case val.Num:
		return []val.V{val.S("s"), val.F(float64(v.Int())), val.N("/q")}
	case val.Str:
		return []val.V{val.I(0), val.N("/q"), val.B([]byte(v.S))}
	case val.Float:
		return []val.V{val.I(1), val.S("s")}
	case val.Time:
		return []val.V{val.I(v.Int()), val.D(v.Int())}
	case val.Dur:
		return []val.V{val.T(v.Int()), val.I(v.Int())}
	case val.Bytes:
		return []val.V{val.S("x")}
	case val.Pair:
		var out []val.V
		// the other nesting of three components: (a, (b, c)) <-> ((a, b), c)
		if r := v.E[1]; r.T == val.Pair {
			out = append(out, val.P(val.P(v.E[0], r.E[0]), r.E[1]))
		}
		if l := v.E[0]; l.T == val.Pair {
			out = append(out, val.P(l.E[0], val.P(l.E[1], v.E[1])))
		}
		return append(out, val.P(v.E[1], v.E[0]), v.E[0])
	case val.List:
		out := []val.V{val.L(append(append([]val.V{}, v.E...), val.S("z"))...), val.L(append(append([]val.V{}, v.E...), val.I(9))...)}
		if len(v.E) > 0 {
			out = append(out, val.L(v.E[1:]...), v.E[0])
		}
		return out
	case val.Map:
		return []val.V{
			val.M(append(append([][2]val.V{}, v.KV...), [2]val.V{val.N("/zz"), val.S("z")})...),
			val.M(append(append([][2]val.V{}, v.KV...), [2]val.V{val.I(9), val.I(9)})...),
			val.St(v.KV...),
		}
	case val.Struct:
		out := []val.V{val.St(append(append([][2]val.V{}, v.KV...), [2]val.V{val.N("/zz"), val.I(1)})...)}
		for i := range v.KV {
			if i >= 3 {
				break
			}
			kv := append(append([][2]val.V{}, v.KV[:i]...), v.KV[i+1:]...)
			out = append(out, val.St(kv...))
		}
		return out
	}
	return nil
}

// rewrites lists values that differ from v by one rewrite step at one position.
func rewrites(v val.V) []val.V {
	out := local(v)
	for i := range v.E {
		for _, r := range rewrites(v.E[i]) {
			w := v
			w.E = append([]val.V{}, v.E...)
			w.E[i] = r
			out = append(out, w)
		}
	}
	for i := range v.KV {
		for side := 0; side < 2; side++ {
			for _, r := range rewrites(v.KV[i][side]) {
				w := v
				w.KV = append([][2]val.V{}, v.KV...)
				w.KV[i][side] = r
				out = append(out, w)
			}
		}
	}
	return capV(out, maxRewrites)
}

type universe struct {
	vals []val.V
	seen map[string]bool
}

func (u *universe) add(v val.V) {
	if len(u.vals) >= maxUniverse || v.HasDupKeys() {
		return
	}
	k := v.Key()
	if u.seen[k] {
		return
	}
	u.seen[k] = true
	u.vals = append(u.vals, v)
}

// buildUniverse returns U for the given type expressions.
func buildUniverse(types []TE) []val.V {
	u := &universe{seen: map[string]bool{}}
	members := make([][]val.V, len(types))
	for i, te := range types {
		members[i] = cands(te)
	}
	roundRobin := func(lists [][]val.V) {
		for r := 0; ; r++ {
			any := false
			for _, l := range lists {
				if r < len(l) {
					any = true
					u.add(l[r])
				}
			}
			if !any {
				return
			}
		}
	}
	roundRobin(members)
	for _, s := range stock {
		u.add(s)
	}
	// both nestings of the components of every tuple type and nested pair type: membership reads
	// Tuple(A, B, C) as Pair(A, Pair(B, C)), so the left-nested ((a, b), c) must be there to tell
	roundRobin(nestings(types))
	// members of the sub-expressions, so that inner positions have their own witnesses
	var inner [][]val.V
	for _, te := range types {
		te.walk(func(x TE) { inner = append(inner, capV(cands(x), 4)) })
	}
	var rw [][]val.V
	for _, ms := range members {
		for _, m := range ms {
			rw = append(rw, rewrites(m))
		}
	}
	roundRobin(inner)
	roundRobin(rw)
	return u.vals
}

// nestings lists, for every tuple type and every pair type with a pair type as a component inside the
// given types, the left-nested and the right-nested pairs built from members of the components.
func nestings(types []TE) [][]val.V {
	var out [][]val.V
	left := func(vs []val.V) val.V {
		res := val.P(vs[0], vs[1])
		for _, v := range vs[2:] {
			res = val.P(res, v)
		}
		return res
	}
	right := func(vs []val.V) val.V {
		res := val.P(vs[len(vs)-2], vs[len(vs)-1])
		for j := len(vs) - 3; j >= 0; j-- {
			res = val.P(vs[j], res)
		}
		return res
	}
	for _, te := range types {
		te.walk(func(x TE) {
			var comps []TE
			switch {
			case x.K == kTuple:
				comps = x.A
			case x.K == kPair && x.A[1].K == kPair:
				comps = []TE{x.A[0], x.A[1].A[0], x.A[1].A[1]}
			case x.K == kPair && x.A[0].K == kPair:
				comps = []TE{x.A[0].A[0], x.A[0].A[1], x.A[1]}
			default:
				return
			}
			lists := make([][]val.V, len(comps))
			for i, c := range comps {
				lists[i] = capV(cands(c), 2)
			}
			out = append(out, capV(vary(lists, left), 4), capV(vary(lists, right), 4))
		})
	}
	return out
}

// subValues returns vs together with all values nested inside them (deduplicated, order stable).
func subValues(vs []val.V) []val.V {
	seen := map[string]bool{}
	var out []val.V
	var rec func(v val.V)
	rec = func(v val.V) {
		k := v.Key()
		if seen[k] {
			return
		}
		seen[k] = true
		out = append(out, v)
		for _, e := range v.E {
			rec(e)
		}
		for _, kv := range v.KV {
			rec(kv[0])
			rec(kv[1])
		}
	}
	for _, v := range vs {
		rec(v)
	}
	return out
}
