package c12

import (
	"strings"

	"pgregory.net/rapid"
	"verif/stats"
)

// Named exclusions (active only for "known" entries of known_findings.json, see harness/README.md).
const (
	// K07b: Map(K1,V) conforms to Map(K2,V) when K2 conforms to K1 (keys contravariant), membership is
	// covariant. Removed by construction: any two Map types of a case have key types that are either
	// the same expression or base types of different value kinds (at most one key type per kind), so
	// the key premise of the map rule can only hold between equal key types.
	exclMapKey = "K07b-map-key-variance"
	// K07c: a struct type conforms to one with fewer required fields or with extra opt fields, while
	// membership demands exactly the declared (required and opt) fields. Removed by construction:
	// all struct types of a case (incl. the expansions of tagged unions) share one label set; fields
	// may still be required in one type and opt in another.
	exclStruct = "K07c-struct-width"
	// Tagged union on the right-hand side is compared through an expansion whose tag field is typed
	// /name instead of fn:Singleton(tag) (pinned by TestTaggedUnionSetConforms for an "inferred"
	// struct type whose tag field is typed /name). Removed by construction: no plain struct type of a
	// case types the tag-field label /k exactly /name.
	exclTagged = "C12N1-tagged-union-name-tag"
)

const (
	maxDepth = 3
	tagField = "/k"
)

var (
	plainLabels   = []string{"/k", "/a", "/b", "/c"}
	variantLabels = []string{"/a", "/b", "/c"}
	variantTags   = []string{"/a", "/b", "/foo/x"}
	// weighted list of base types; index 0 is what rapid shrinks towards
	leafBases = []string{"/any", "/number", "/string", "/name", "/foo", "/foo/bar", "/foobar", "/a",
		"/number", "/string", "/name", "/foo", "/any", "/float64", "/time", "/duration", "/bot", "/bytes",
		// name-prefix types that begin like a base type (their members are names, not numbers/strings/...)
		"/number/n", "/string/s", "/bot/b", "/time/t"}
	singNames = []string{"/foo/x", "/foo/bar/x", "/foobar/x", "/a/x", "/foo", "/q"}
	// key types of different value kinds (one representative of the name kind is drawn per case)
	keyKinds     = []string{"/number", "/string", "/float64", "/time", "/duration"}
	nameKeyTypes = []TE{base("/name"), base("/foo"), base("/foo/bar"), base("/foobar"), base("/a"), sing("/foo/x")}
	baseRelative = map[string][]TE{
		"/any":      {base("/name"), base("/number")},
		"/name":     {base("/foo"), base("/a"), base("/foobar"), sing("/foo/x"), base("/any")},
		"/foo":      {base("/foo/bar"), base("/foobar"), base("/name"), sing("/foo/x"), sing("/foo")},
		"/foo/bar":  {base("/foo"), base("/foobar"), base("/name"), sing("/foo/bar/x")},
		"/foobar":   {base("/foo"), base("/name"), sing("/foobar/x")},
		"/a":        {base("/name"), base("/any"), sing("/a/x")},
		"/number":   {base("/float64"), base("/name"), base("/string"), base("/number/n")},
		"/number/n": {base("/number"), base("/name")},
		"/string/s": {base("/string"), base("/name")},
		"/bot/b":    {base("/bot"), base("/name")},
		"/time/t":   {base("/time"), base("/name")},
		"/float64":  {base("/number")},
		"/string":   {base("/bytes"), base("/name"), base("/number"), base("/string/s")},
		"/time":     {base("/duration"), base("/number")},
		"/duration": {base("/time")},
		"/bot":      {base("/any"), base("/number"), base("/bot/b")},
		"/bytes":    {base("/string"), base("/name")},
	}
)

type genEnv struct {
	t                               *rapid.T
	mapExcl, structExcl, taggedExcl bool
	keyPool                         []TE     // mapExcl: the key types Map types of this case may use
	labels                          []string // structExcl: the label set of every struct type of this case
	// which exclusions shaped the case
	usedMapExcl, usedStructExcl, usedTaggedExcl bool
	// a tuple type was exchanged for one of its pair readings or the reverse (label gen:tuple-vs-pair)
	usedTuplePair bool
	// a constructor over a union was exchanged for the union of the constructed types or the reverse
	// (label gen:union-distribution)
	usedDist bool
}

func newEnv(t *rapid.T) *genEnv {
	g := &genEnv{t: t, mapExcl: stats.Exclusion(exclMapKey), structExcl: stats.Exclusion(exclStruct), taggedExcl: stats.Exclusion(exclTagged)}
	if g.structExcl {
		g.labels = plainLabels[:rapid.IntRange(0, 3).Draw(t, "nlabels")]
	}
	if g.mapExcl {
		if rapid.IntRange(0, 3).Draw(t, "keymode") == 0 {
			// one key type for all maps: anything without a Map inside
			g.keyPool = []TE{base("/any")}
			k := g.te(rapid.IntRange(0, 1).Draw(t, "keydepth"))
			if k.has(kMap) {
				k = base("/any")
			}
			g.keyPool = []TE{k}
			g.usedMapExcl = false
		} else {
			g.keyPool = []TE{nameKeyTypes[rapid.IntRange(0, len(nameKeyTypes)-1).Draw(t, "namekey")]}
			n := rapid.IntRange(1, 2).Draw(t, "nkeykinds")
			start := rapid.IntRange(0, len(keyKinds)-1).Draw(t, "keykind")
			for i := 0; i < n; i++ {
				g.keyPool = append(g.keyPool, base(keyKinds[(start+i)%len(keyKinds)]))
			}
		}
	}
	return g
}

func (g *genEnv) leaf() TE {
	if rapid.IntRange(0, 6).Draw(g.t, "singleton") == 0 {
		return sing(singNames[rapid.IntRange(0, len(singNames)-1).Draw(g.t, "singname")])
	}
	return base(leafBases[rapid.IntRange(0, len(leafBases)-1).Draw(g.t, "base")])
}

func (g *genEnv) key(d int) TE {
	if g.mapExcl {
		g.usedMapExcl = true
		return g.keyPool[rapid.IntRange(0, len(g.keyPool)-1).Draw(g.t, "poolkey")].clone()
	}
	return g.te(d)
}

// subset draws a sub-list of labels (in order) by bit mask.
func (g *genEnv) subset(labels []string, nonEmpty bool, what string) []string {
	lo := 0
	if nonEmpty {
		lo = 1
	}
	mask := rapid.IntRange(lo, (1<<len(labels))-1).Draw(g.t, what)
	var res []string
	for i, l := range labels {
		if mask&(1<<i) != 0 {
			res = append(res, l)
		}
	}
	return res
}

// structOf draws a struct type over the given labels, field types of depth <= d.
func (g *genEnv) structOf(labels []string, d int) TE {
	res := TE{K: kStruct}
	for _, l := range labels {
		res.F = append(res.F, Field{L: l, Opt: rapid.IntRange(0, 3).Draw(g.t, "opt") == 0, T: g.te(d)})
	}
	return res
}

func (g *genEnv) plainStruct(d int) TE {
	if g.structExcl {
		g.usedStructExcl = true
		return g.structOf(g.labels, d)
	}
	labels := g.subset(plainLabels, false, "labels")
	if len(labels) > 3 {
		labels = labels[:3]
	}
	return g.structOf(labels, d)
}

// canTag tells whether a tagged union can be generated under the struct exclusion.
func (g *genEnv) canTag() bool { return !g.structExcl || len(g.labels) >= 1 }

func (g *genEnv) variantStruct(d int) TE {
	if g.structExcl {
		g.usedStructExcl = true
		return g.structOf(g.labels[1:], d) // labels[0] is the tag field /k, added by the expansion
	}
	labels := g.subset(variantLabels, false, "vlabels")
	if len(labels) > 2 {
		labels = labels[:2]
	}
	return g.structOf(labels, d)
}

func (g *genEnv) tagged(d int) TE {
	res := TE{K: kTagged, Tag: tagField}
	for _, tag := range g.subset(variantTags, true, "vtags") {
		res.F = append(res.F, Field{L: tag, T: g.variantStruct(d - 2)})
	}
	return res
}

// te draws a type expression of nesting depth <= d.
func (g *genEnv) te(d int) TE {
	if d < 0 {
		d = 0
	}
	leafOutOf10 := [...]int{10, 6, 4, 2}[min(d, 3)]
	if rapid.IntRange(0, 9).Draw(g.t, "leaf?") < leafOutOf10 {
		return g.leaf()
	}
	switch rapid.IntRange(0, 9).Draw(g.t, "ctor") {
	case 0, 1:
		n := rapid.IntRange(1, 3).Draw(g.t, "nalts")
		res := TE{K: kUnion}
		for i := 0; i < n; i++ {
			res.A = append(res.A, g.te(d-1))
		}
		return res
	case 2:
		return pairT(g.te(d-1), g.te(d-1))
	case 3:
		return listT(g.te(d - 1))
	case 4, 5:
		return mapT(g.key(d-1), g.te(d-1))
	case 6, 7:
		return g.plainStruct(d - 1)
	case 8:
		n := rapid.IntRange(3, 4).Draw(g.t, "ntuple")
		res := TE{K: kTuple}
		for i := 0; i < n; i++ {
			res.A = append(res.A, g.te(d-1))
		}
		return res
	default:
		if d >= 2 && g.canTag() {
			return g.tagged(d)
		}
		return g.plainStruct(d - 1)
	}
}

// pos is a position inside a type expression at which a sub-expression may be exchanged.
type pos struct {
	path    []int
	key     bool // root of a Map key
	variant bool // struct of a tagged-union variant (must stay a struct)
}

func (g *genEnv) positions(te TE) []pos {
	var res []pos
	var rec func(n TE, path []int, inKey, key, variant bool)
	rec = func(n TE, path []int, inKey, key, variant bool) {
		if !(inKey && !key && g.mapExcl) { // under the map exclusion nothing inside a key is touched
			res = append(res, pos{path: append([]int{}, path...), key: key, variant: variant})
		}
		if inKey && g.mapExcl {
			return
		}
		for i, a := range n.A {
			isKey := n.K == kMap && i == 0
			rec(a, append(path, i), inKey || isKey, isKey, false)
		}
		for i, f := range n.F {
			rec(f.T, append(path, i), inKey, false, n.K == kTagged)
		}
	}
	rec(te, nil, false, false, false)
	return res
}

func at(te TE, path []int) TE {
	for _, i := range path {
		if len(te.A) > 0 {
			te = te.A[i]
		} else {
			te = te.F[i].T
		}
	}
	return te
}

func replaceAt(te TE, path []int, r TE) TE {
	if len(path) == 0 {
		return r
	}
	res := te.clone()
	n := &res
	for _, i := range path[:len(path)-1] {
		if len(n.A) > 0 {
			n = &n.A[i]
		} else {
			n = &n.F[i].T
		}
	}
	last := path[len(path)-1]
	if len(n.A) > 0 {
		n.A[last] = r
	} else {
		n.F[last].T = r
	}
	return res
}

func parentName(n string) (string, bool) {
	if i := strings.LastIndex(n, "/"); i > 0 {
		return n[:i], true
	}
	return "", false
}

// structOps rewrites a struct type into a related struct type.
func (g *genEnv) structOps(s TE, variant bool) TE {
	res := s.clone()
	var ops []func()
	if len(res.F) > 0 {
		ops = append(ops, func() {
			i := rapid.IntRange(0, len(res.F)-1).Draw(g.t, "field")
			res.F[i].Opt = !res.F[i].Opt
		})
	}
	if g.structExcl {
		g.usedStructExcl = true
	} else {
		if len(res.F) > 0 {
			ops = append(ops, func() {
				i := rapid.IntRange(0, len(res.F)-1).Draw(g.t, "field")
				res.F = append(res.F[:i:i], res.F[i+1:]...)
			})
		}
		pool := plainLabels
		if variant {
			pool = variantLabels
		}
		var free []string
		for _, l := range pool {
			used := false
			for _, f := range res.F {
				used = used || f.L == l
			}
			if !used {
				free = append(free, l)
			}
		}
		if len(free) > 0 && len(res.F) < 4 {
			ops = append(ops, func() {
				l := free[rapid.IntRange(0, len(free)-1).Draw(g.t, "newlabel")]
				res.F = append(res.F, Field{L: l, Opt: rapid.Bool().Draw(g.t, "newopt"), T: g.leaf()})
			})
		}
	}
	if len(ops) == 0 {
		return res
	}
	ops[rapid.IntRange(0, len(ops)-1).Draw(g.t, "structop")]()
	return res
}

// expandTagged is the union of structs a tagged union stands for (tag field typed by the singleton).
func expandTagged(tu TE) TE {
	res := TE{K: kUnion}
	for _, v := range tu.F {
		s := TE{K: kStruct, F: []Field{{L: tu.Tag, T: sing(v.L)}}}
		s.F = append(s.F, v.T.clone().F...)
		res.A = append(res.A, s)
	}
	return res
}

// related draws an expression related to sub (wider, narrower, look-alike or restructured) whose
// depth stays within d.
func (g *genEnv) related(sub TE, d int, p pos) TE {
	if p.key && g.mapExcl {
		g.usedMapExcl = true
		return g.keyPool[rapid.IntRange(0, len(g.keyPool)-1).Draw(g.t, "poolkey")].clone()
	}
	if p.variant {
		return g.structOps(sub, true)
	}
	var ops []func() TE
	add := func(w int, f func() TE) {
		for i := 0; i < w; i++ {
			ops = append(ops, f)
		}
	}
	add(2, func() TE { return base("/any") })
	add(1, func() TE { return base("/bot") })
	add(2, func() TE { return g.leaf() })
	sd := sub.depth()
	if sd+1 <= d {
		add(2, func() TE { return union(sub.clone(), g.leaf()) })
		add(1, func() TE { return union(g.leaf(), sub.clone()) })
	}
	if d >= 1 {
		add(2, func() TE { return g.te(min(d, 2)) })
	}
	if len(distComps(sub)) > 0 {
		add(5, func() TE { return g.distribute(sub, d) })
	}
	if factorable(sub) {
		add(5, func() TE { return g.factor(sub, d) })
	}
	switch sub.K {
	case kBase:
		for _, r := range baseRelative[sub.S] {
			r := r
			add(3, func() TE { return r.clone() })
		}
	case kSing:
		if par, ok := parentName(sub.C.S); ok {
			add(3, func() TE { return base(par) })
		}
		add(2, func() TE { return base("/name") })
		add(1, func() TE { return sing(singNames[rapid.IntRange(0, len(singNames)-1).Draw(g.t, "singname")]) })
	case kUnion:
		if len(sub.A) > 1 {
			add(3, func() TE {
				i := rapid.IntRange(0, len(sub.A)-1).Draw(g.t, "dropalt")
				res := sub.clone()
				res.A = append(res.A[:i:i], res.A[i+1:]...)
				return res
			})
			add(1, func() TE {
				res := sub.clone()
				for i, j := 0, len(res.A)-1; i < j; i, j = i+1, j-1 {
					res.A[i], res.A[j] = res.A[j], res.A[i]
				}
				return res
			})
		}
		add(2, func() TE { return sub.A[rapid.IntRange(0, len(sub.A)-1).Draw(g.t, "onealt")].clone() })
		if len(sub.A) < 4 {
			add(3, func() TE { res := sub.clone(); res.A = append(res.A, g.leaf()); return res })
		}
	case kPair:
		if isMixPos(sub) {
			add(4, func() TE { return g.tuplePair(sub, d) })
		}
		add(2, func() TE { return pairT(sub.A[1].clone(), sub.A[0].clone()) })
		add(2, func() TE { return tupleT(sub.A[0].clone(), sub.A[1].clone(), g.leaf()) })
		add(1, func() TE { return sub.A[0].clone() })
	case kTuple:
		add(6, func() TE { return g.tuplePair(sub, d) })
		if len(sub.A) < 5 {
			add(3, func() TE { res := sub.clone(); res.A = append(res.A, g.leaf()); return res })
		}
		add(3, func() TE {
			res := sub.clone()
			res.A = res.A[:len(res.A)-1]
			if len(res.A) == 2 {
				res.K = kPair
			}
			return res
		})
	case kList:
		add(2, func() TE { return sub.A[0].clone() })
		if sd+1 <= d {
			add(2, func() TE { return listT(sub.clone()) })
		}
	case kMap:
		if !g.mapExcl {
			add(3, func() TE { return mapT(base("/any"), sub.A[1].clone()) })
			add(2, func() TE { return mapT(sub.A[1].clone(), sub.A[0].clone()) })
			add(3, func() TE { return mapT(g.leaf(), sub.A[1].clone()) })
		}
		add(1, func() TE { return listT(sub.A[1].clone()) })
	case kStruct:
		add(6, func() TE { return g.structOps(sub, false) })
	case kTagged:
		if len(sub.F) > 1 {
			add(3, func() TE {
				i := rapid.IntRange(0, len(sub.F)-1).Draw(g.t, "dropvariant")
				res := sub.clone()
				res.F = append(res.F[:i:i], res.F[i+1:]...)
				return res
			})
		}
		var freeTags []string
		for _, tag := range variantTags {
			used := false
			for _, f := range sub.F {
				used = used || f.L == tag
			}
			if !used {
				freeTags = append(freeTags, tag)
			}
		}
		if len(freeTags) > 0 {
			add(3, func() TE { // one more variant
				res := sub.clone()
				tag := freeTags[rapid.IntRange(0, len(freeTags)-1).Draw(g.t, "newtag")]
				res.F = append(res.F, Field{L: tag, T: sub.F[rapid.IntRange(0, len(sub.F)-1).Draw(g.t, "likevariant")].T.clone()})
				return res
			})
			add(3, func() TE { // same variant struct under another tag
				res := sub.clone()
				res.F[rapid.IntRange(0, len(res.F)-1).Draw(g.t, "retag")].L = freeTags[rapid.IntRange(0, len(freeTags)-1).Draw(g.t, "newtag")]
				return res
			})
		}
		add(3, func() TE { return expandTagged(sub) })
		add(1, func() TE { // the expansion with the tag field typed /name (what type inference produces)
			res := expandTagged(sub)
			for i := range res.A {
				res.A[i].F[0].T = base("/name")
			}
			return res
		})
	}
	return ops[rapid.IntRange(0, len(ops)-1).Draw(g.t, "relop")]()
}

// isMixPos tells whether sub is a tuple type or a pair type that reads like (part of) a tuple: a
// component that is itself a pair type or /any.
func isMixPos(sub TE) bool {
	switch sub.K {
	case kTuple:
		return true
	case kPair:
		for _, a := range sub.A {
			if a.K == kPair || (a.K == kBase && a.S == "/any") {
				return true
			}
		}
	}
	return false
}

// nestRight is Pair(A, Pair(B, C)), the reading of Tuple(A, B, C) that membership uses; nestLeft is
// Pair(Pair(A, B), C).
func nestRight(cs []TE) TE {
	res := pairT(cs[len(cs)-2], cs[len(cs)-1])
	for j := len(cs) - 3; j >= 0; j-- {
		res = pairT(cs[j], res)
	}
	return res
}

func nestLeft(cs []TE) TE {
	res := pairT(cs[0], cs[1])
	for _, c := range cs[2:] {
		res = pairT(res, c)
	}
	return res
}

// step exchanges a component for a wider or narrower one of no greater depth.
func (g *genEnv) step(c TE) TE {
	if rapid.IntRange(0, 3).Draw(g.t, "stepany") == 0 {
		return base("/any")
	}
	r := g.related(c, c.depth(), pos{})
	if r.depth() > c.depth() {
		return base("/any")
	}
	return r
}

// tuplePair relates the two spellings of a product of three or more types. For a tuple type
// Tuple(A, B, C[, D]) it returns the right-nested pair type Pair(A, Pair(B, C)), the left-nested
// Pair(Pair(A, B), C), Pair(A, /any) or Pair(/any, C); for a pair type with a pair type or /any as a
// component the tuple type read off it (right-nested and left-nested reading). In half of the draws
// one component is in addition exchanged for a wider or narrower one, so that conformance may hold
// in either direction. The result has depth <= d (components that do not fit become /any).
func (g *genEnv) tuplePair(sub TE, d int) TE {
	g.usedTuplePair = true
	isAny := func(x TE) bool { return x.K == kBase && x.S == "/any" }
	var cs []TE
	toTuple := false
	switch sub.K {
	case kTuple:
		for _, a := range sub.A {
			cs = append(cs, a.clone())
		}
	case kPair:
		toTuple = true
		a, b := sub.A[0], sub.A[1]
		var forms [][]TE
		if b.K == kPair { // right-nested reading
			forms = append(forms, []TE{a, b.A[0], b.A[1]})
			if b.A[1].K == kPair {
				forms = append(forms, []TE{a, b.A[0], b.A[1].A[0], b.A[1].A[1]})
			}
		}
		if a.K == kPair { // left-nested reading
			forms = append(forms, []TE{a.A[0], a.A[1], b})
			if a.A[0].K == kPair {
				forms = append(forms, []TE{a.A[0].A[0], a.A[0].A[1], a.A[1], b})
			}
		}
		if isAny(b) {
			forms = append(forms, []TE{a, g.leaf(), g.leaf()})
		}
		if isAny(a) {
			forms = append(forms, []TE{g.leaf(), g.leaf(), b})
		}
		if len(forms) == 0 {
			forms = append(forms, []TE{a, b, g.leaf()})
		}
		for _, c := range forms[rapid.IntRange(0, len(forms)-1).Draw(g.t, "tupleform")] {
			cs = append(cs, c.clone())
		}
	default:
		return sub.clone()
	}
	if rapid.Bool().Draw(g.t, "stepcomponent") {
		i := rapid.IntRange(0, len(cs)-1).Draw(g.t, "component")
		cs[i] = g.step(cs[i])
	}
	fit := func(budget int) {
		for i := range cs {
			if cs[i].depth() > budget {
				cs[i] = base("/any")
			}
		}
	}
	if toTuple {
		fit(d - 1)
		return tupleT(cs...)
	}
	n := len(cs)
	form := rapid.IntRange(0, 5).Draw(g.t, "pairform")
	if form < 4 && d < n-1 { // the nested readings do not fit
		form += 2
	}
	switch form {
	case 0, 1:
		fit(d - (n - 1))
		return nestRight(cs)
	case 2, 3:
		fit(d - (n - 1))
		return nestLeft(cs)
	case 4, 6:
		fit(d - 1)
		return pairT(cs[0], base("/any"))
	default:
		fit(d - 1)
		return pairT(base("/any"), cs[n-1])
	}
}

// tupleSeed draws a tuple type with shallow components (so that its pair readings stay within the
// depth limit), bare or inside a list or union.
func (g *genEnv) tupleSeed() TE {
	n := rapid.IntRange(3, 4).Draw(g.t, "ntuple")
	res := TE{K: kTuple}
	for i := 0; i < n; i++ {
		if n == 3 && rapid.IntRange(0, 3).Draw(g.t, "deepcomponent") == 0 {
			res.A = append(res.A, g.te(1))
		} else {
			res.A = append(res.A, g.leaf())
		}
	}
	if res.depth() > 1 {
		return res
	}
	switch rapid.IntRange(0, 5).Draw(g.t, "wrap") {
	case 0:
		return listT(res)
	case 1:
		return union(res, g.leaf())
	}
	return res
}

// ---------------------------------------------------------------------------------------------
// Union distribution: C(Union(A, B), X) versus Union(C(A, X), C(B, X)). The two are the same set of
// constants when C is a product (pair, tuple, struct field) and differ when C is a collection (list
// element, map value), whose elements choose their alternative independently.

// comp / withComp address the i-th component of a constructor type (struct: the i-th field type).
func comp(te TE, i int) TE {
	if te.K == kStruct {
		return te.F[i].T
	}
	return te.A[i]
}

func withComp(te TE, i int, r TE) TE {
	res := te.clone()
	if te.K == kStruct {
		res.F[i].T = r
	} else {
		res.A[i] = r
	}
	return res
}

// compIdx lists the components of a constructor type over which a union may be moved: list element,
// pair and tuple components, struct fields, the VALUE type of a map (the key stays as it is).
func compIdx(te TE) []int {
	switch te.K {
	case kList:
		return []int{0}
	case kMap:
		return []int{1}
	case kPair, kTuple:
		res := make([]int, len(te.A))
		for i := range res {
			res[i] = i
		}
		return res
	case kStruct:
		res := make([]int, len(te.F))
		for i := range res {
			res[i] = i
		}
		return res
	}
	return nil
}

// distComps lists the components of te that are unions of two or more alternatives.
func distComps(te TE) []int {
	var res []int
	for _, i := range compIdx(te) {
		if c := comp(te, i); c.K == kUnion && len(c.A) >= 2 {
			res = append(res, i)
		}
	}
	return res
}

// factorable tells whether te is a union of two or more types of ONE constructor that agree in
// everything a union cannot be moved over (tuple length, map key type, struct labels).
func factorable(te TE) bool {
	if te.K != kUnion || len(te.A) < 2 {
		return false
	}
	f := te.A[0]
	if len(compIdx(f)) == 0 {
		return false
	}
	for _, a := range te.A[1:] {
		if a.K != f.K || len(a.A) != len(f.A) || len(a.F) != len(f.F) {
			return false
		}
		if f.K == kMap && a.A[0].String() != f.A[0].String() {
			return false
		}
		for i := range f.F {
			if a.F[i].L != f.F[i].L {
				return false
			}
		}
	}
	return true
}

func isDistPos(sub TE) bool { return len(distComps(sub)) > 0 || factorable(sub) }

// distribute turns C(..., Union(A, B), ...) into Union(C(..., A, ...), C(..., B, ...)); in half of
// the draws one alternative of the result then has that component exchanged for a wider or narrower
// one, or one alternative of the result is dropped, so that the two forms are relatives rather than
// equals. sub unchanged if the result would be deeper than d.
func (g *genEnv) distribute(sub TE, d int) TE {
	idx := distComps(sub)
	if len(idx) == 0 {
		return sub.clone()
	}
	i := idx[rapid.IntRange(0, len(idx)-1).Draw(g.t, "distcomponent")]
	res := TE{K: kUnion}
	for _, a := range comp(sub, i).A {
		res.A = append(res.A, withComp(sub, i, a.clone()))
	}
	switch rapid.IntRange(0, 5).Draw(g.t, "distvariation") {
	case 0, 1:
		j := rapid.IntRange(0, len(res.A)-1).Draw(g.t, "distalt")
		res.A[j] = withComp(res.A[j], i, g.step(comp(res.A[j], i)))
	case 2:
		if len(res.A) > 2 {
			j := rapid.IntRange(0, len(res.A)-1).Draw(g.t, "distdrop")
			res.A = append(res.A[:j:j], res.A[j+1:]...)
		}
	}
	if res.depth() > d {
		return sub.clone()
	}
	g.usedDist = true
	return res
}

// factor turns Union(C(A, X), C(B, Y)) into C(Union(A, B), Union(X, Y)) (equal components are not
// repeated); in a third of the draws one alternative of one new union is then exchanged for a wider
// or narrower one. sub unchanged if the result would be deeper than d.
func (g *genEnv) factor(sub TE, d int) TE {
	if !factorable(sub) {
		return sub.clone()
	}
	res := sub.A[0].clone()
	var unions []int
	for _, i := range compIdx(res) {
		var alts []TE
		seen := map[string]bool{}
		for _, a := range sub.A {
			c := comp(a, i)
			if k := c.String(); !seen[k] {
				seen[k] = true
				alts = append(alts, c.clone())
			}
		}
		if len(alts) > 1 {
			res = withComp(res, i, union(alts...))
			unions = append(unions, i)
		}
	}
	if len(unions) > 0 && rapid.IntRange(0, 2).Draw(g.t, "factorvariation") == 0 {
		i := unions[rapid.IntRange(0, len(unions)-1).Draw(g.t, "factorcomponent")]
		u := comp(res, i).clone()
		j := rapid.IntRange(0, len(u.A)-1).Draw(g.t, "factoralt")
		u.A[j] = g.step(u.A[j])
		res = withComp(res, i, u)
	}
	if res.depth() > d {
		return sub.clone()
	}
	g.usedDist = true
	return res
}

// distSeed draws a constructor type over a union of two or three leaves - a list or map (value) in
// half of the draws, else a pair or tuple - in its factored or (half of the draws) its distributed
// form, bare or inside a list or union.
func (g *genEnv) distSeed() TE {
	n := rapid.IntRange(2, 3).Draw(g.t, "ndistalts")
	u := TE{K: kUnion}
	seen := map[string]bool{}
	for tries := 0; len(u.A) < n && tries < 8; tries++ {
		if l := g.leaf(); !seen[l.String()] {
			seen[l.String()] = true
			u.A = append(u.A, l)
		}
	}
	for len(u.A) < 2 {
		u.A = append(u.A, base([]string{"/number", "/string"}[len(u.A)]))
	}
	var res TE
	switch rapid.IntRange(0, 7).Draw(g.t, "distctor") {
	case 0, 1, 2:
		res = listT(u)
	case 3:
		res = mapT(g.key(0), u)
	case 4:
		res = pairT(u, g.leaf())
	case 5:
		res = pairT(g.leaf(), u)
	case 6:
		res = pairT(u, union(g.leaf(), g.leaf()))
	default:
		cs := []TE{g.leaf(), g.leaf(), g.leaf()}
		cs[rapid.IntRange(0, 2).Draw(g.t, "distcomponent")] = u
		res = tupleT(cs...)
	}
	if res.depth() > 2 { // a deep key type
		res = listT(u)
	}
	if rapid.Bool().Draw(g.t, "distributed") {
		res = g.distribute(res, maxDepth)
	}
	g.usedDist = true
	switch rapid.IntRange(0, 5).Draw(g.t, "wrap") {
	case 0:
		return listT(res)
	case 1:
		if res.K != kUnion {
			return union(res, g.leaf())
		}
	}
	return res
}

// derive exchanges one sub-expression of b for a related one.
func (g *genEnv) derive(b TE) TE {
	ps := g.positions(b)
	// a third of the derivations of a type with a tuple (or nested pair) inside go to that position
	var mix []pos
	for _, p := range ps {
		if !p.variant && !(p.key && g.mapExcl) && isMixPos(at(b, p.path)) {
			mix = append(mix, p)
		}
	}
	if len(mix) > 0 && rapid.IntRange(0, 2).Draw(g.t, "tuple-vs-pair?") == 0 {
		p := mix[rapid.IntRange(0, len(mix)-1).Draw(g.t, "mixposition")]
		res := replaceAt(b, p.path, g.tuplePair(at(b, p.path), maxDepth-len(p.path)))
		if res.depth() <= maxDepth {
			return res
		}
	}
	// likewise a third of the derivations of a type with a constructor over a union (or a union of
	// types of one constructor) inside exchange that position for its distributed / factored form
	var dist []pos
	for _, p := range ps {
		if !p.variant && !(p.key && g.mapExcl) && isDistPos(at(b, p.path)) {
			dist = append(dist, p)
		}
	}
	if len(dist) > 0 && rapid.IntRange(0, 2).Draw(g.t, "union-distribution?") == 0 {
		p := dist[rapid.IntRange(0, len(dist)-1).Draw(g.t, "distposition")]
		sub := at(b, p.path)
		var r TE
		if factorable(sub) && (len(distComps(sub)) == 0 || rapid.Bool().Draw(g.t, "factor?")) {
			r = g.factor(sub, maxDepth-len(p.path))
		} else {
			r = g.distribute(sub, maxDepth-len(p.path))
		}
		res := replaceAt(b, p.path, r)
		if res.depth() <= maxDepth {
			return res
		}
	}
	p := ps[rapid.IntRange(0, len(ps)-1).Draw(g.t, "position")]
	r := g.related(at(b, p.path), maxDepth-len(p.path), p)
	res := replaceAt(b, p.path, r)
	if res.depth() > maxDepth {
		if p.variant || (p.key && g.mapExcl) {
			return b.clone()
		}
		res = replaceAt(b, p.path, base("/any"))
	}
	return res
}

// sanitize enforces the tagged-union exclusion on a finished expression.
func (g *genEnv) sanitize(te TE) TE {
	if !g.taggedExcl {
		return te
	}
	res := te.clone()
	var rec func(n *TE, variant bool)
	rec = func(n *TE, variant bool) {
		if n.K == kStruct && !variant {
			for i := range n.F {
				if n.F[i].L == tagField && n.F[i].T.K == kBase && n.F[i].T.S == "/name" {
					n.F[i].T = base("/foo")
					g.usedTaggedExcl = true
				}
			}
		}
		for i := range n.A {
			rec(&n.A[i], false)
		}
		for i := range n.F {
			rec(&n.F[i].T, n.K == kTagged)
		}
	}
	rec(&res, false)
	return res
}

var modes = []string{modeCtor, modeCtor, modeCtor, modeFn, modeDot, modeMixed}

type genInfo struct {
	excluded  []string
	derived   int
	copies    int
	tuplePair bool
	dist      bool
}

func genCase(t *rapid.T) (Case, genInfo) {
	g := newEnv(t)
	var info genInfo
	n := rapid.IntRange(2, 4).Draw(t, "ntypes")
	var tes []TE
	switch rapid.IntRange(0, 7).Draw(t, "firstshape") {
	case 1:
		tes = append(tes, g.tupleSeed())
	case 2:
		tes = append(tes, g.distSeed())
	default:
		tes = append(tes, g.te(maxDepth))
	}
	for i := 1; i < n; i++ {
		from := tes[rapid.IntRange(0, i-1).Draw(t, "from")]
		switch r := rapid.IntRange(0, 9).Draw(t, "how"); {
		case r < 7:
			tes = append(tes, g.derive(from))
			info.derived++
		case r == 7:
			tes = append(tes, from.clone())
			info.copies++
		default:
			tes = append(tes, g.te(rapid.IntRange(1, maxDepth).Draw(t, "depth")))
		}
	}
	var c Case
	for _, te := range tes {
		c.Types = append(c.Types, TypeSpec{Mode: modes[rapid.IntRange(0, len(modes)-1).Draw(t, "mode")], T: g.sanitize(te)})
	}
	info.tuplePair = g.usedTuplePair
	info.dist = g.usedDist
	if g.usedMapExcl {
		info.excluded = append(info.excluded, exclMapKey)
	}
	if g.usedStructExcl {
		info.excluded = append(info.excluded, exclStruct)
	}
	if g.usedTaggedExcl {
		info.excluded = append(info.excluded, exclTagged)
	}
	return c, info
}
