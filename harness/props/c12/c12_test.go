// Package c12 checks property C12: type conformance is sound for membership; bounds are bounds.
//
// The library's static judgements (symbols.SetConforms, UpperBound, LowerBound) are judged against
// the library's OWN membership test (symbols.TypeHandle.HasType) on a universe of constants that is
// derived from the type expressions of the case. No membership semantics of our own is used, with one
// exception: the result symbols.EmptyType ("a type without members", fn:Union()), for which no
// TypeHandle can be made (WellformedType rejects the empty union), has no members.
//
// Deliberate differences from DESIGN.md §3 C12 (all to stay inside the documented domain):
//   - fn:Singleton carries name constants only: WellformedType (hence NewTypeHandle) rejects any other
//     constant, so singletons of numbers/strings are not "well-formed type expressions".
//   - The K07c exclusion keeps opt fields: with equal label sets the struct rule agrees with HasType
//     whether a field is required or opt; only differing label sets are removed.
//   - The K07b exclusion admits, besides one shared key type, base key types of different value kinds
//     (for which the key premise of the map rule fails in both directions).
//   - A panic of the judged functions on well-formed closed types is reported as "no judgement".
//   - Third exclusion C12N1-tagged-union-name-tag for the part of the tagged-union defect found by
//     this check that the repo's TestTaggedUnionSetConforms pins (see gen_test.go).
//   - The universe is a deterministic function of the types (not drawn), so a replay file holds only
//     the type expressions.
package c12

import (
	"encoding/json"
	"fmt"
	"strings"
	"testing"

	"codeberg.org/TauCeti/mangle-go/ast"
	"codeberg.org/TauCeti/mangle-go/symbols"
	"pgregory.net/rapid"
	"verif/stats"
	"verif/val"
)

// Case is a list of 2-4 closed type expressions. Every ordered pair is judged for conformance, the
// whole list (in the given and in reversed order) for the upper and the lower bound.
type Case struct {
	Types []TypeSpec `json:"types"`
}

func (c Case) hash() uint64 {
	b, _ := json.Marshal(c)
	return stats.Hash(string(b))
}

type verdict struct {
	nontrivial bool
	labels     []string
}

// member is the library's membership test for a type term; ok=false if no handle can be made.
type member struct {
	h     symbols.TypeHandle
	empty bool
}

func newMember(t ast.BaseTerm) (member, error) {
	if a, isApply := t.(ast.ApplyFn); isApply && a.Function.Symbol == symbols.UnionType.Symbol && len(a.Args) == 0 {
		return member{empty: true}, nil // symbols.EmptyType
	}
	h, err := symbols.NewTypeHandle(nil, t)
	return member{h: h}, err
}

func (m member) has(c ast.Constant) bool {
	if m.empty {
		return false
	}
	return m.h.HasType(c)
}

func safely(what string, fn func()) (panicMsg string) {
	defer func() {
		if p := recover(); p != nil {
			panicMsg = fmt.Sprintf("%s panicked: %v", what, p)
		}
	}()
	fn()
	return ""
}

func conforms(s, t ast.BaseTerm) (res bool, panicMsg string) {
	panicMsg = safely("SetConforms", func() { res = symbols.SetConforms(nil, s, t) })
	return
}

// ---------------------------------------------------------------------------------------------
// Localisation: descend from an affirmed pair with a witness to the innermost such sub-pair.

type subPair struct{ s, t ast.BaseTerm }

func structFields(t ast.ApplyFn) (labels []string, types map[string]ast.BaseTerm) {
	types = map[string]ast.BaseTerm{}
	for i := 0; i < len(t.Args); i++ {
		if opt, ok := t.Args[i].(ast.ApplyFn); ok && opt.Function.Symbol == symbols.Optional.Symbol && len(opt.Args) == 2 {
			if l, ok := opt.Args[0].(ast.Constant); ok {
				labels = append(labels, l.Symbol)
				types[l.Symbol] = opt.Args[1]
			}
			continue
		}
		if l, ok := t.Args[i].(ast.Constant); ok && i+1 < len(t.Args) {
			labels = append(labels, l.Symbol)
			types[l.Symbol] = t.Args[i+1]
			i++
		}
	}
	return
}

// subPairs lists the pairs of sub-expressions the conformance rules relate.
func subPairs(s, t ast.BaseTerm) []subPair {
	sa, sIsApply := s.(ast.ApplyFn)
	ta, tIsApply := t.(ast.ApplyFn)
	var res []subPair
	switch {
	case sIsApply && sa.Function.Symbol == symbols.TaggedUnionType.Symbol:
		if exp, err := symbols.ExpandTaggedUnionType(sa); err == nil {
			res = append(res, subPair{exp, t})
		}
	case sIsApply && sa.Function.Symbol == symbols.UnionType.Symbol:
		for _, a := range sa.Args {
			res = append(res, subPair{a, t})
		}
	case tIsApply && ta.Function.Symbol == symbols.TaggedUnionType.Symbol:
		if exp, err := symbols.ExpandTaggedUnionType(ta); err == nil {
			res = append(res, subPair{s, exp})
		}
	case tIsApply && ta.Function.Symbol == symbols.UnionType.Symbol:
		for _, b := range ta.Args {
			res = append(res, subPair{s, b})
		}
	case sIsApply && tIsApply && sa.Function.Symbol == ta.Function.Symbol:
		switch sa.Function.Symbol {
		case symbols.ListType.Symbol, symbols.PairType.Symbol, symbols.TupleType.Symbol:
			for i := 0; i < len(sa.Args) && i < len(ta.Args); i++ {
				res = append(res, subPair{sa.Args[i], ta.Args[i]})
			}
		case symbols.MapType.Symbol:
			if len(sa.Args) == 2 && len(ta.Args) == 2 {
				res = append(res, subPair{sa.Args[1], ta.Args[1]}, subPair{sa.Args[0], ta.Args[0]})
			}
		case symbols.StructType.Symbol:
			sl, st := structFields(sa)
			_, tt := structFields(ta)
			for _, l := range sl {
				if other, ok := tt[l]; ok {
					res = append(res, subPair{st[l], other})
				}
			}
		}
	}
	return res
}

func ruleName(s, t ast.BaseTerm) string {
	_, sConst := s.(ast.Constant)
	_, tConst := t.(ast.Constant)
	ss, ts := fnSym(s), fnSym(t)
	switch {
	case sameShape(s, t):
		return "equal expressions (recorded constructor arities: " + termStr(s) + " vs " + termStr(t) + ")"
	case sConst && val.KeyOf(s.(ast.Constant)) == val.N("/bot").Key():
		return "/bot conforms to everything"
	case sConst && tConst:
		return "two name constants (name-prefix / base-type rule)"
	case ss == symbols.SingletonType.Symbol:
		return "singleton on the left (membership of its constant)"
	case ts == symbols.TaggedUnionType.Symbol:
		return "tagged union on the right (compared through its expansion for bounds checking)"
	case ss == ts && ss != "":
		return strings.TrimPrefix(ss, "fn:") + " rule"
	case ts == symbols.UnionType.Symbol:
		return "union on the right"
	}
	return "mixed shapes"
}

type located struct {
	s, t ast.BaseTerm
	w    ast.Constant
	rule string
}

func (l located) String() string {
	res := fmt.Sprintf("%s ⊑ %s is affirmed, yet %s is a member of the left and not of the right type [%s]",
		termStr(l.s), termStr(l.t), val.From(l.w).Source(), l.rule)
	if strings.Contains(termStr(l.s)+termStr(l.t), "#") {
		res += " (a constructor marked #n records the arity n, which differs from the arity of that type constructor in symbols.TypeConstructors)"
	}
	return res
}

func witness(s, t ast.BaseTerm, cs []ast.Constant) (ast.Constant, bool) {
	ms, err := newMember(s)
	if err != nil {
		return ast.Constant{}, false
	}
	mt, err := newMember(t)
	if err != nil {
		return ast.Constant{}, false
	}
	var best ast.Constant
	bestLen := -1
	for _, c := range cs {
		if ms.has(c) && !mt.has(c) {
			if l := len(val.From(c).Source()); bestLen < 0 || l < bestLen {
				best, bestLen = c, l
			}
		}
	}
	return best, bestLen >= 0
}

// localise descends to the innermost sub-pair that is itself affirmed and has a witness among cs.
func localise(s, t ast.BaseTerm, w ast.Constant, cs []ast.Constant, fuel int) located {
	if fuel > 0 {
		for _, p := range subPairs(s, t) {
			if ok, pm := conforms(p.s, p.t); pm == "" && ok {
				if w2, found := witness(p.s, p.t, cs); found {
					return localise(p.s, p.t, w2, cs, fuel-1)
				}
			}
		}
	}
	return located{s, t, w, ruleName(s, t)}
}

// flatten returns the alternatives of top-level unions (by symbol), other terms as they are.
func flatten(ts []ast.BaseTerm) []ast.BaseTerm {
	var res []ast.BaseTerm
	for _, t := range ts {
		if a, ok := t.(ast.ApplyFn); ok && a.Function.Symbol == symbols.UnionType.Symbol {
			res = append(res, a.Args...)
		} else {
			res = append(res, t)
		}
	}
	return res
}

// ---------------------------------------------------------------------------------------------

func listStr(ts []ast.BaseTerm) string {
	parts := make([]string, len(ts))
	for i, t := range ts {
		parts[i] = termStr(t)
	}
	return "[" + strings.Join(parts, "; ") + "]"
}

func kindLabel(te TE) string {
	if te.K == kBase {
		switch te.S {
		case "/any", "/bot", "/name", "/number", "/string", "/float64", "/time", "/duration", "/bytes":
			return te.S
		}
		return "prefix"
	}
	return te.K
}

// mixes tells whether comparing s with t confronts a tuple type with a pair type at corresponding
// positions (only used for labels).
func mixes(s, t TE) bool {
	switch {
	case (s.K == kTuple && t.K == kPair) || (s.K == kPair && t.K == kTuple):
		return true
	case s.K == kUnion:
		for _, a := range s.A {
			if mixes(a, t) {
				return true
			}
		}
		return false
	case t.K == kUnion:
		for _, b := range t.A {
			if mixes(s, b) {
				return true
			}
		}
		return false
	case s.K != t.K:
		return false
	}
	for i := 0; i < len(s.A) && i < len(t.A); i++ {
		if mixes(s.A[i], t.A[i]) {
			return true
		}
	}
	for _, fs := range s.F {
		for _, ft := range t.F {
			if fs.L == ft.L && mixes(fs.T, ft.T) {
				return true
			}
		}
	}
	return false
}

// hoisted tells whether u is a union with two or more alternatives of the constructor of c while c
// has a union as a component: the confrontation Union(C(A), C(B)) versus C(Union(A, B)).
func hoisted(u, c TE) bool {
	if u.K != kUnion || len(distComps(c)) == 0 {
		return false
	}
	n := 0
	for _, a := range u.A {
		if a.K == c.K {
			n++
		}
	}
	return n >= 2
}

// distMixes tells whether comparing s with t confronts a constructor over a union with a union of
// types of that constructor at corresponding positions (only used for labels); collection = the
// constructor is List or Map, for which the two are different sets.
func distMixes(s, t TE) (found, collection bool) {
	merge := func(f, c bool) {
		found = found || f
		collection = collection || c
	}
	switch {
	case hoisted(s, t):
		return true, t.K == kList || t.K == kMap
	case hoisted(t, s):
		return true, s.K == kList || s.K == kMap
	case s.K == kUnion:
		for _, a := range s.A {
			merge(distMixes(a, t))
		}
		return
	case t.K == kUnion:
		for _, b := range t.A {
			merge(distMixes(s, b))
		}
		return
	case s.K != t.K:
		return
	}
	for i := 0; i < len(s.A) && i < len(t.A); i++ {
		merge(distMixes(s.A[i], t.A[i]))
	}
	for _, fs := range s.F {
		for _, ft := range t.F {
			if fs.L == ft.L {
				merge(distMixes(fs.T, ft.T))
			}
		}
	}
	return
}

// check judges the case; it is a pure function of c and the code under test.
func check(run *stats.Run, f stats.Failer, c Case) verdict {
	var v verdict
	labels := map[string]bool{}
	n := len(c.Types)
	if n < 2 {
		f.Fatalf("harness: a case needs at least two types")
	}
	terms := make([]ast.BaseTerm, n)
	mems := make([]member, n)
	tes := make([]TE, n)
	srcs := make([]string, n)
	for i, spec := range c.Types {
		t, err := spec.build()
		if err != nil {
			f.Fatalf("harness: %v", err)
		}
		terms[i], tes[i], srcs[i] = t, spec.T, spec.T.String()
		m, err := newMember(t)
		if err != nil {
			run.Failf(f, "type expression %s is built from the documented constructors but NewTypeHandle rejects it: %v", spec, err)
		}
		mems[i] = m
		if spec.Mode != modeCtor {
			labels["mode:"+spec.Mode] = true
		}
		for _, k := range []string{kMap, kStruct, kTagged, kTuple, kUnion, kSing, kList, kPair} {
			if spec.T.has(k) {
				labels["has:"+k] = true
			}
		}
		spec.T.walk(func(x TE) {
			if (x.K == kList && len(mixedLists(x.A[0])) > 0) || (x.K == kMap && len(mixedLists(x.A[1])) > 0) {
				labels["u:mixed-list-or-map"] = true
			}
		})
	}
	uvals := buildUniverse(tes)
	U := make([]ast.Constant, len(uvals))
	for k, uv := range uvals {
		U[k] = uv.Build()
	}
	var subU []ast.Constant // built lazily: only needed to localise a violation
	sub := func() []ast.Constant {
		if subU == nil {
			for _, sv := range subValues(uvals) {
				subU = append(subU, sv.Build())
			}
		}
		return subU
	}
	mem := make([][]bool, n)
	inhabited := make([]bool, n)
	for i := range mems {
		mem[i] = make([]bool, len(U))
		for k, cst := range U {
			mem[i][k] = mems[i].has(cst)
			inhabited[i] = inhabited[i] || mem[i][k]
		}
		if !inhabited[i] {
			labels["uninhabited-type"] = true
		}
	}

	// 1. conformance: affirmed  =>  members of S are members of T.
	for i := 0; i < n; i++ {
		for j := 0; j < n; j++ {
			if i == j {
				continue
			}
			if mixes(tes[i], tes[j]) {
				labels["mix:tuple-vs-pair"] = true
			}
			dm, dmColl := distMixes(tes[i], tes[j])
			if dm {
				labels["mix:union-distribution"] = true
			}
			if dmColl {
				labels["mix:union-distribution-list-or-map"] = true
			}
			ok, pm := conforms(terms[i], terms[j])
			if pm != "" {
				run.Failf(f, "no judgement for a pair of well-formed closed type expressions: %s on S = %s, T = %s", pm, c.Types[i], c.Types[j])
			}
			if !ok {
				labels["denied"] = true
				continue
			}
			labels["affirmed"] = true
			if mixes(tes[i], tes[j]) {
				labels["mix:tuple-vs-pair-affirmed"] = true
			}
			if dm {
				labels["mix:union-distribution-affirmed"] = true
			}
			best := -1 // the shortest witness, for the message
			for k := range U {
				if mem[i][k] && !mem[j][k] && (best < 0 || len(uvals[k].Source()) < len(uvals[best].Source())) {
					best = k
				}
			}
			if best >= 0 {
				loc := localise(terms[i], terms[j], U[best], sub(), 12)
				run.Failf(f, "SetConforms(S, T) = true for S = %s, T = %s, but the constant %s has type S and not type T (by TypeHandle.HasType). Innermost affirmed sub-pair with a witness: %s",
					c.Types[i], c.Types[j], uvals[best].Source(), loc)
			}
			if srcs[i] != srcs[j] && srcs[j] != "/any" && srcs[i] != "/bot" && inhabited[i] {
				v.nontrivial = true
				labels["nt:"+kindLabel(tes[i])+"<:"+kindLabel(tes[j])] = true
				if c.Types[i].Mode != c.Types[j].Mode {
					labels["nt-across-build-modes"] = true
				}
				proper := false
				for k := range U {
					proper = proper || (mem[j][k] && !mem[i][k])
				}
				if proper {
					labels["nt-proper-subset-in-U"] = true
				}
			}
		}
	}

	// 2. bounds of the list, in the given and in the reversed order.
	for _, reversed := range []bool{false, true} {
		ts := append([]ast.BaseTerm{}, terms...)
		idx := make([]int, n)
		for i := range idx {
			idx[i] = i
		}
		if reversed {
			for a, b := 0, n-1; a < b; a, b = a+1, b-1 {
				ts[a], ts[b] = ts[b], ts[a]
				idx[a], idx[b] = idx[b], idx[a]
			}
		}
		var ub, lb ast.BaseTerm
		if pm := safely("UpperBound", func() { ub = symbols.UpperBound(nil, ts) }); pm != "" {
			run.Failf(f, "no upper bound for well-formed closed type expressions: %s on %s", pm, listStr(ts))
		}
		if pm := safely("LowerBound", func() { lb = symbols.LowerBound(nil, ts) }); pm != "" {
			run.Failf(f, "no lower bound for well-formed closed type expressions: %s on %s", pm, listStr(ts))
		}
		mub, err := newMember(ub)
		if err != nil {
			labels["bound-not-wellformed"] = true
			run.Inconclusive()
		} else {
			for k, cst := range U {
				if mub.has(cst) {
					continue
				}
				for p, i := range idx {
					if !mem[i][k] {
						continue
					}
					msg := fmt.Sprintf("UpperBound(%s) = %s, but the constant %s has type %s and not the type of the bound (by TypeHandle.HasType).",
						listStr(ts), termStr(ub), uvals[k].Source(), termStr(ts[p]))
					// the alternative x that holds the constant was absorbed by some alternative y of the bound
					for _, x := range flatten(ts) {
						mx, err := newMember(x)
						if err != nil || !mx.has(cst) {
							continue
						}
						for _, y := range flatten([]ast.BaseTerm{ub}) {
							if ok, pm := conforms(x, y); pm == "" && ok {
								if w, found := witness(x, y, []ast.Constant{cst}); found {
									msg += " Innermost affirmed sub-pair with a witness: " + localise(x, y, w, sub(), 12).String()
									run.Failf(f, "%s", msg)
								}
							}
						}
					}
					run.Failf(f, "%s", msg)
				}
			}
			if !reversed {
				switch {
				case sameShape(ub, ast.AnyBound):
					labels["ub:/any"] = true
				case fnSym(ub) == symbols.UnionType.Symbol:
					labels["ub:union"] = true
				default:
					labels["ub:one-input-or-alternative"] = true
				}
			}
		}
		mlb, err := newMember(lb)
		if err != nil {
			labels["bound-not-wellformed"] = true
			run.Inconclusive()
		} else {
			lbInhabited := false
			for k, cst := range U {
				if !mlb.has(cst) {
					continue
				}
				lbInhabited = true
				for p, i := range idx {
					if mem[i][k] {
						continue
					}
					msg := fmt.Sprintf("LowerBound(%s) = %s, but the constant %s has the type of the bound and not type %s (by TypeHandle.HasType).",
						listStr(ts), termStr(lb), uvals[k].Source(), termStr(ts[p]))
					if ok, pm := conforms(lb, ts[p]); pm == "" && ok {
						msg += " Innermost affirmed sub-pair with a witness: " + localise(lb, ts[p], cst, sub(), 12).String()
					}
					run.Failf(f, "%s", msg)
				}
			}
			if !reversed {
				switch {
				case mlb.empty:
					labels["lb:empty-type"] = true
				case lbInhabited:
					labels["lb:inhabited-in-U"] = true
				default:
					labels["lb:no-member-in-U"] = true
				}
			}
		}
	}
	if v.nontrivial {
		labels["nontrivial"] = true
	}
	for l := range labels {
		v.labels = append(v.labels, l)
	}
	return v
}

func TestC12(t *testing.T) {
	run := stats.Begin("C12", "TestC12")
	defer run.Finish(t)
	rapid.Check(t, func(rt *rapid.T) {
		c, info := genCase(rt)
		run.Current(c)
		v := check(run, rt, c)
		for _, e := range info.excluded {
			run.Excluded(e)
		}
		if info.derived > 0 {
			v.labels = append(v.labels, "gen:derived")
		}
		if info.copies > 0 {
			v.labels = append(v.labels, "gen:copy")
		}
		if info.tuplePair {
			v.labels = append(v.labels, "gen:tuple-vs-pair")
		}
		if info.dist {
			v.labels = append(v.labels, "gen:union-distribution")
		}
		run.Case(v.nontrivial, c.hash(), v.labels...)
		if v.nontrivial {
			run.Sample("nontrivial", c)
		}
	})
}

func TestReplay(t *testing.T) {
	var c Case
	if !stats.LoadReplay(t, &c) {
		return
	}
	run := stats.Begin("C12", "TestReplay")
	check(run, t, c)
}
