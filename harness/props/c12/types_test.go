package c12

import (
	"fmt"
	"strings"

	"codeberg.org/TauCeti/mangle-go/ast"
	"codeberg.org/TauCeti/mangle-go/parse"
	"codeberg.org/TauCeti/mangle-go/symbols"
	"verif/val"
)

// Kinds of type expressions.
const (
	kBase   = "base"   // S = /any, /bot, /name, /number, /string, /float64, /time, /duration, /bytes or a name-prefix type such as /foo
	kSing   = "sing"   // fn:Singleton(C), C a name constant (WellformedType admits nothing else)
	kUnion  = "union"  // A = alternatives (>= 1)
	kPair   = "pair"   // A = 2 components
	kTuple  = "tuple"  // A = >= 3 components
	kList   = "list"   // A = 1 element type
	kMap    = "map"    // A = key type, value type
	kStruct = "struct" // F = fields (required or opt)
	kTagged = "tagged" // Tag = tag field label, F = variants (L = variant tag, T = struct type)
)

// Field is a field of a struct type, or a variant of a tagged union.
type Field struct {
	L   string `json:"l"`
	Opt bool   `json:"opt,omitempty"`
	T   TE     `json:"t"`
}

// TE is the harness' own tree of a closed first-order type expression (the replay format).
type TE struct {
	K   string  `json:"k"`
	S   string  `json:"s,omitempty"`
	C   *val.V  `json:"c,omitempty"`
	A   []TE    `json:"a,omitempty"`
	F   []Field `json:"f,omitempty"`
	Tag string  `json:"tag,omitempty"`
}

func base(s string) TE      { return TE{K: kBase, S: s} }
func sing(name string) TE   { v := val.N(name); return TE{K: kSing, C: &v} }
func union(as ...TE) TE     { return TE{K: kUnion, A: as} }
func pairT(a, b TE) TE      { return TE{K: kPair, A: []TE{a, b}} }
func tupleT(as ...TE) TE    { return TE{K: kTuple, A: as} }
func listT(e TE) TE         { return TE{K: kList, A: []TE{e}} }
func mapT(k, v TE) TE       { return TE{K: kMap, A: []TE{k, v}} }
func structT(f ...Field) TE { return TE{K: kStruct, F: f} }

// Ways of turning a TE into the library's ast.BaseTerm.
const (
	modeCtor  = "ctor"  // symbols.New...Type constructors
	modeFn    = "fn"    // parse "fn:Union(/a, /b)": the function symbol records the actual arity
	modeDot   = "dot"   // parse ".Union</a, /b>": every function symbol records arity -1
	modeMixed = "mixed" // parse, fn: syntax at even nesting levels and dot syntax at odd ones
)

// TypeSpec is a type expression together with the way it is built.
type TypeSpec struct {
	Mode string `json:"mode"`
	T    TE     `json:"t"`
}

func mustName(s string) ast.Constant {
	c, err := ast.Name(s)
	if err != nil {
		panic(fmt.Sprintf("c12: invalid name %q: %v", s, err))
	}
	return c
}

// ctor builds the expression with the exported constructors of package symbols.
func (te TE) ctor() ast.BaseTerm {
	args := func() []ast.BaseTerm {
		res := make([]ast.BaseTerm, len(te.A))
		for i, a := range te.A {
			res[i] = a.ctor()
		}
		return res
	}
	switch te.K {
	case kBase:
		return mustName(te.S)
	case kSing:
		return symbols.NewSingletonType(te.C.Build())
	case kUnion:
		return symbols.NewUnionType(args()...)
	case kPair:
		return symbols.NewPairType(te.A[0].ctor(), te.A[1].ctor())
	case kTuple:
		return symbols.NewTupleType(args()...)
	case kList:
		return symbols.NewListType(te.A[0].ctor())
	case kMap:
		return symbols.NewMapType(te.A[0].ctor(), te.A[1].ctor())
	case kStruct:
		var as []ast.BaseTerm
		for _, f := range te.F {
			if f.Opt {
				as = append(as, symbols.NewOpt(mustName(f.L), f.T.ctor()))
			} else {
				as = append(as, mustName(f.L), f.T.ctor())
			}
		}
		return symbols.NewStructType(as...)
	case kTagged:
		var as []ast.BaseTerm
		for _, f := range te.F {
			as = append(as, mustName(f.L), f.T.ctor())
		}
		return symbols.NewTaggedUnionType(mustName(te.Tag), as...)
	}
	panic("c12: unknown type kind " + te.K)
}

// src prints the expression as source text; dot(level) selects the syntax of a constructor at
// the given nesting level.
func (te TE) src(dot func(level int) bool, level int) string {
	wrap := func(name string, parts []string) string {
		if dot(level) {
			return "." + name + "<" + strings.Join(parts, ", ") + ">"
		}
		return "fn:" + name + "(" + strings.Join(parts, ", ") + ")"
	}
	args := func() []string {
		res := make([]string, len(te.A))
		for i, a := range te.A {
			res[i] = a.src(dot, level+1)
		}
		return res
	}
	switch te.K {
	case kBase:
		return te.S
	case kSing:
		return wrap("Singleton", []string{te.C.Source()})
	case kUnion:
		return wrap("Union", args())
	case kPair:
		return wrap("Pair", args())
	case kTuple:
		return wrap("Tuple", args())
	case kList:
		return wrap("List", args())
	case kMap:
		return wrap("Map", args())
	case kStruct:
		var parts []string
		for _, f := range te.F {
			t := f.T.src(dot, level+1)
			switch {
			case dot(level) && f.Opt:
				parts = append(parts, "opt "+f.L+" : "+t)
			case dot(level):
				parts = append(parts, f.L+" : "+t)
			case f.Opt:
				// inside fn:Struct(...) an optional field is written fn:opt(label, type)
				parts = append(parts, "fn:opt("+f.L+", "+t+")")
			default:
				parts = append(parts, f.L, t)
			}
		}
		return wrap("Struct", parts)
	case kTagged:
		parts := []string{te.Tag}
		for _, f := range te.F {
			t := f.T.src(dot, level+1)
			if dot(level) {
				parts = append(parts, f.L+" : "+t)
			} else {
				parts = append(parts, f.L, t)
			}
		}
		return wrap("TaggedUnion", parts)
	}
	panic("c12: unknown type kind " + te.K)
}

func (te TE) String() string { return te.src(func(int) bool { return false }, 0) }

func (s TypeSpec) source() string {
	switch s.Mode {
	case modeDot:
		return s.T.src(func(int) bool { return true }, 0)
	case modeMixed:
		return s.T.src(func(l int) bool { return l%2 == 1 }, 0)
	}
	return s.T.String()
}

func (s TypeSpec) String() string { return "[" + s.Mode + "] " + s.source() }

// build produces the library term. For the parsed modes the result is compared structurally
// (ignoring recorded arities) with the constructor-built term: a difference is a harness error.
func (s TypeSpec) build() (ast.BaseTerm, error) {
	want := s.T.ctor()
	if s.Mode == modeCtor || s.Mode == "" {
		return want, nil
	}
	got, err := parse.BaseTerm(s.source())
	if err != nil {
		return nil, fmt.Errorf("cannot parse %q: %v", s.source(), err)
	}
	if !sameShape(got, want) {
		return nil, fmt.Errorf("parsing %q gives %s, the constructors give %s", s.source(), termStr(got), termStr(want))
	}
	return got, nil
}

// sameShape compares two terms by function names, argument lists and constants (own comparison,
// arities ignored).
func sameShape(a, b ast.BaseTerm) bool {
	switch x := a.(type) {
	case ast.Constant:
		y, ok := b.(ast.Constant)
		return ok && val.KeyOf(x) == val.KeyOf(y)
	case ast.ApplyFn:
		y, ok := b.(ast.ApplyFn)
		if !ok || x.Function.Symbol != y.Function.Symbol || len(x.Args) != len(y.Args) {
			return false
		}
		for i := range x.Args {
			if !sameShape(x.Args[i], y.Args[i]) {
				return false
			}
		}
		return true
	}
	return false
}

// termStr prints a library type term with an own printer. A function symbol whose recorded arity
// differs from the arity of the type constructor in symbols.TypeConstructors is marked "#arity".
func termStr(t ast.BaseTerm) string {
	switch x := t.(type) {
	case ast.Constant:
		return val.From(x).Source()
	case ast.Variable:
		return x.Symbol
	case ast.ApplyFn:
		parts := make([]string, len(x.Args))
		for i, a := range x.Args {
			parts[i] = termStr(a)
		}
		name := x.Function.Symbol
		canon, known := symbols.TypeConstructors[name]
		if name == symbols.Optional.Symbol {
			canon, known = symbols.Optional, true
		}
		if !known || canon.Arity != x.Function.Arity {
			name += fmt.Sprintf("#%d", x.Function.Arity)
		}
		return name + "(" + strings.Join(parts, ", ") + ")"
	}
	return fmt.Sprintf("%v", t)
}

func fnSym(t ast.BaseTerm) string {
	if a, ok := t.(ast.ApplyFn); ok {
		return a.Function.Symbol
	}
	return ""
}

// depth is the nesting depth of constructors (base types and singletons of names count 0).
func (te TE) depth() int {
	d := 0
	for _, a := range te.A {
		if x := a.depth(); x > d {
			d = x
		}
	}
	for _, f := range te.F {
		if x := f.T.depth(); x > d {
			d = x
		}
	}
	if te.K == kBase || te.K == kSing {
		return 0
	}
	return d + 1
}

// walk calls fn for every node.
func (te TE) walk(fn func(TE)) {
	fn(te)
	for _, a := range te.A {
		a.walk(fn)
	}
	for _, f := range te.F {
		f.T.walk(fn)
	}
}

func (te TE) has(kind string) bool {
	found := false
	te.walk(func(x TE) {
		if x.K == kind {
			found = true
		}
	})
	return found
}

// clone makes a deep copy.
func (te TE) clone() TE {
	res := te
	if te.C != nil {
		c := *te.C
		res.C = &c
	}
	if te.A != nil {
		res.A = make([]TE, len(te.A))
		for i, a := range te.A {
			res.A[i] = a.clone()
		}
	}
	if te.F != nil {
		res.F = make([]Field, len(te.F))
		for i, f := range te.F {
			res.F[i] = Field{L: f.L, Opt: f.Opt, T: f.T.clone()}
		}
	}
	return res
}
