package c11

import (
	"fmt"
	"sort"

	"codeberg.org/TauCeti/mangle-go/analysis"
	"codeberg.org/TauCeti/mangle-go/ast"
	"codeberg.org/TauCeti/mangle-go/builtin"
	"codeberg.org/TauCeti/mangle-go/engine"
	"codeberg.org/TauCeti/mangle-go/factstore"
	"codeberg.org/TauCeti/mangle-go/parse"
	"verif/prog"
)

// result of running the real pipeline with bounds checking in error mode.
type result struct {
	out      prog.Outcome
	factKeys []string // sorted canonical keys of out.Facts
	declared int      // stored facts of user-declared predicates
	bad      []string // stored facts of user-declared predicates the run-time check rejects
	badPre   []string // pre-loaded facts the run-time check rejects (before evaluation)
}

func boundsCheck(unit parse.SourceUnit) (*analysis.ProgramInfo, error) {
	return analysis.AnalyzeAndCheckBounds([]parse.SourceUnit{unit}, nil, analysis.ErrorForBoundsMismatch)
}

// runText: parse -> AnalyzeAndCheckBounds(ErrorForBoundsMismatch) -> EvalProgram on the array store
// (equality-checking, so K08 hash collisions do not interfere) -> CheckTypeBounds on every stored fact of
// every user-declared predicate.
func runText(text string, extra []ast.Atom) (r result) {
	prog.Analyze(text, &r.out, boundsCheck)
	if r.out.ParseErr != nil || r.out.AnalysisErr != nil || r.out.Panic != "" {
		return
	}
	info := r.out.Info
	checker := builtin.NewTypeCheckerFromDesugared(info.Decls)
	userDeclared := func(p ast.PredicateSym) bool {
		d, ok := info.Decls[p]
		return ok && !d.IsSynthetic()
	}
	store := factstore.NewMultiIndexedArrayInMemoryStore()
	for _, a := range extra {
		if userDeclared(a.Predicate) {
			if err := checker.CheckTypeBounds(a); err != nil {
				r.badPre = append(r.badPre, fmt.Sprintf("%v: %v", a, err))
			}
		}
		store.Add(a)
	}
	func() {
		defer func() {
			if p := recover(); p != nil {
				r.out.Panic, r.out.PanicStage = fmt.Sprint(p), "eval"
			}
		}()
		r.out.EvalErr = engine.EvalProgram(info, store, engine.WithCreatedFactLimit(5000))
	}()
	if r.out.Panic != "" {
		return
	}
	prog.ReadStore(store, &r.out)
	for k := range r.out.Facts {
		r.factKeys = append(r.factKeys, k)
	}
	sort.Strings(r.factKeys)
	for _, k := range r.factKeys {
		a := r.out.Facts[k]
		if !userDeclared(a.Predicate) {
			continue
		}
		r.declared++
		func() {
			defer func() {
				if p := recover(); p != nil {
					r.bad = append(r.bad, fmt.Sprintf("%v: run-time check panicked: %v", a, p))
				}
			}()
			if err := checker.CheckTypeBounds(a); err != nil {
				r.bad = append(r.bad, fmt.Sprintf("%v", err))
			}
		}()
	}
	return
}
