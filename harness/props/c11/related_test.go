package c11

import (
	"fmt"

	"pgregory.net/rapid"
	"verif/prog"
	"verif/val"
)

// Two generator dimensions around RELATED element types of one collection:
//
//  1. fn:list:append / fn:list:cons whose two arguments have comparable but different element types (the
//     list's element type a strict supertype of the other argument's type, or the reverse). The value holds
//     elements of the wider type, so only the list of the wider type is a sound result type.
//  2. list / map literals and fn:list / fn:map constructions of three or four elements of different but
//     related leaf types (name-prefix types on different branches together with /name), in every order:
//     the checker types them by the least upper bound of the element types.
//
// In both, the head is declared from the harness' own join, and in a fixed share one step too narrow (the
// list of the NARROWER type / of one of the element kinds), which has to be rejected.

// ---------------------------------------------------------------------------------------------
// 1. Strict-supertype pairs for fn:list:append / fn:list:cons.

// subPairPool: (wider, narrower) leaf types, the narrower one a proper part of the wider one.
var subPairPool = [][2]Ty{
	{tyName, tyPrefix("/foo")},
	{tyName, tyPrefix("/foo")},
	{tyName, tyPrefix("/a")},
	{tyName, tyPrefix("/foo/bar")},
	{tyName, tyPrefix("/foobar")},
	{tyPrefix("/foo"), tyPrefix("/foo/bar")},
	{tyAny, tyNumber},
	{tyAny, tyName},
	{tyAny, tyString},
	{tyUnion(tyNumber, tyString), tyNumber},
	{tyUnion(tyNumber, tyString), tyString},
	{tyUnion(tyName, tyNumber), tyNumber},
	{tyUnion(tyPrefix("/foo"), tyNumber), tyPrefix("/foo")},
	{tyUnion(tyPrefix("/foo"), tyPrefix("/a")), tyPrefix("/a")},
	{tyUnion(tyName, tyString), tyPrefix("/foo")},
}

// subColTy draws a column type around the case's (wider, narrower) pair: a list of the wider type, a
// list of the narrower type, or one of the two as a plain column (the other argument of the function).
func (g *progGen) subColTy() Ty {
	t := g.t
	first := !g.hasSub
	if first {
		p := subPairPool[g.intn("subpair", len(subPairPool))]
		g.subW, g.subN, g.hasSub = p[0], p[1], true
	}
	k := g.intn("subcol", 10)
	if first && k >= 6 {
		k -= 6 // the first such column of a case is a list
	}
	var ty Ty
	switch {
	case k < 4:
		ty = tyList(g.subW)
	case k < 6:
		ty = tyList(g.subN)
	case k < 9:
		ty = g.subN
	default:
		ty = g.subW
	}
	g.label("ty:subtype-list-pair")
	return reflavour(t, ty)
}

// strictlyBelow: every member of a is a member of b and not the reverse, where that is obvious (b is /any,
// or both are built from leaves only). Types with singletons are left out: a singleton never conforms to
// the type variable of a polymorphic function type.
func strictlyBelow(a, b Ty) bool {
	if a.key() == b.key() || a.K == "any" || a.contains("singleton") || b.contains("singleton") {
		return false
	}
	if b.K == "any" {
		return a.isLeaf() || leafOnly(a)
	}
	if !leafOnly(a) || !leafOnly(b) {
		return false
	}
	conf := func(x, y Ty) bool {
		for _, p := range alternatives(x) {
			ok := false
			for _, q := range alternatives(y) {
				ok = ok || leafConforms(p, q)
			}
			if !ok {
				return false
			}
		}
		return true
	}
	return conf(a, b) && !conf(b, a)
}

// oneState: the checker has one type for the variable in every inference state, and the harness knows it.
// While K51 is active that is a variable bound by an atom of a predicate with ONE known relation type
// alternative whose column type is still the flowing type; a variable that holds a constructed value is
// not (its state types follow those of the operands, e.g. V2 = fn:list(V1) with V1 from a two-row
// predicate), nor is one that was refined by a meet.
func (r *ruleGen) oneState(v tvar) bool {
	if v.opaque {
		return false
	}
	if !r.g.k51 {
		return true
	}
	return !v.locked && len(v.groups) == 1 && v.groups[0].key() == v.ty.key()
}

// subPairing is a list variable together with a second argument of a comparable but different type.
type subPairing struct {
	l        tvar
	e        prog.Term
	te       Ty
	wideList bool // the list's element type is the wider one
}

// narrowerConstKinds lists kinds of constants whose type (as the checker types constants: by kind, names by
// the longest name prefix that occurs in a declaration) is a proper part of et.
func narrowerConstKinds(et Ty) []Ty {
	var opts []Ty
	for _, c := range []Ty{tyNumber, tyString, tyPrefix("/foo"), tyPrefix("/a"), tyPrefix("/foo/bar")} {
		if strictlyBelow(c, et) {
			opts = append(opts, c)
		}
	}
	return opts
}

// subtypePairs lists the applications fn:list:append(L, E) / fn:list:cons(E, L) on offer in which the
// element type of L and the type of E are comparable but different. While K51 is active both variables
// must have one state type (then every inference state types the application alike: it is typable in
// all of them or in none, and no alternative is dropped on the way).
func (r *ruleGen) subtypePairs() []subPairing {
	var res []subPairing
	for _, l := range r.env {
		if l.ty.K != "list" || !r.oneState(l) {
			continue
		}
		et := l.ty.Args[0]
		for _, e := range r.env {
			if e.name == l.name || !r.oneState(e) {
				continue
			}
			switch {
			case strictlyBelow(e.ty, et):
				res = append(res, subPairing{l: l, e: prog.Var(e.name), te: e.ty, wideList: true})
			case strictlyBelow(et, e.ty):
				res = append(res, subPairing{l: l, e: prog.Var(e.name), te: e.ty, wideList: false})
			}
		}
		if len(narrowerConstKinds(et)) > 0 {
			res = append(res, subPairing{l: l, wideList: true}) // e: a constant, drawn when used
		}
	}
	return res
}

// subtypeListFn draws one of the applications. The flowing type is the list of the WIDER of the two types
// (the join); in 40 % of the draws it is the list of the narrower one (one step too narrow: a head declared
// from it has to be rejected).
func (r *ruleGen) subtypeListFn(ps []subPairing) (prog.Term, Ty, bool) {
	g := r.g
	t := g.t
	// variables before constants, so that both argument roles occur
	var withVar []subPairing
	for _, p := range ps {
		if p.e.IsVar() {
			withVar = append(withVar, p)
		}
	}
	if len(withVar) > 0 && !chance(t, "const-element", 35) {
		ps = withVar
	}
	p := ps[g.intn("subpairing", len(ps))]
	et := p.l.ty.Args[0]
	if !p.e.IsVar() {
		opts := narrowerConstKinds(et)
		p.te = opts[g.intn("narrower-const", len(opts))]
		p.e = constTerm(genMember(t, p.te))
	}
	wide, narrow := et, p.te
	if !p.wideList {
		wide, narrow = p.te, et
		g.label("listfn:narrow-list-wide-element")
	} else {
		g.label("listfn:wide-list-narrow-element")
	}
	if p.e.IsConst() {
		g.label("listfn:constant-element")
	}
	var term prog.Term
	if rapid.Bool().Draw(t, "cons") {
		term = prog.Fn("fn:list:cons", p.e, prog.Var(p.l.name))
		g.label("listfn:subtype-args-cons")
	} else {
		term = prog.Fn("fn:list:append", prog.Var(p.l.name), p.e)
		g.label("listfn:subtype-args-append")
	}
	g.label("listfn:subtype-args")
	r.last = constructInfo{lock: g.k51, feature: true}
	if chance(t, "over-narrow", 40) {
		g.label("listfn:over-narrowed")
		r.last.narrowed = true
		return term, tyList(narrow), true
	}
	return term, tyList(wide), true
}

// constructInfo: what the last call of construct says about the variable that is going to hold its value.
type constructInfo struct {
	lock     bool // (K51) the checker's type of the value may differ from the flowing type
	narrowed bool // the flowing type was deliberately made one step too narrow
	feature  bool // the head should prefer this variable
}

// ---------------------------------------------------------------------------------------------
// 2. Literals and constructions of three or four elements of related leaf types.

var mixedPrefixes = []string{"/foo", "/a", "/foobar", "/foo/bar"}

// genMixed adds
//
//	Decl eK(A, B, C) bound [/foo, /a, /name].     eK(/foo/x, /a/y, /c).     (the element kinds, in the order of the literal)
//	Decl eL(L) bound [fn:List(/name)].            eL([/foo/y, /a/x, /b]).   (a base fact in the text)
//	Decl iN(L) bound [fn:List(/name)].            iN(L) :- eK(X, Y, Z), L = [X, Y, Z].
//
// with lists or maps (values) of three or four elements: two name-prefix types, /name, and possibly a
// fourth kind, in a random order; the construction is a body equality, a head expression or a
// let-transform, written fn:list(...) / [...] / fn:map(...), some variables replaced by constants of their
// kind. The collection predicates are declared with the join of the element kinds (/name), or - one step too
// narrow, must be rejected - with ONE of the element kinds, occasionally /any. Returns the number of
// intensional levels used.
func (g *progGen) genMixed(edb1, edb2 string, level int) int {
	t := g.t
	g.label("mixed-literal")
	// element kinds
	i := g.intn("p1", len(mixedPrefixes))
	j := g.intn("p2", len(mixedPrefixes)-1)
	if j >= i {
		j++
	}
	p1, p2 := mixedPrefixes[i], mixedPrefixes[j]
	if (below(p1, p2) || below(p2, p1)) && !chance(t, "comparable-prefixes", 25) {
		p1, p2 = "/foo", "/a"
		if rapid.Bool().Draw(t, "swap") {
			p1, p2 = p2, p1
		}
	}
	kinds := []Ty{tyPrefix(p1), tyPrefix(p2), tyName}
	if rapid.IntRange(0, 2).Draw(t, "fourth") == 0 {
		switch g.intn("fourth-kind", 4) {
		case 0:
			kinds = append(kinds, tyName)
		case 1:
			kinds = append(kinds, tyPrefix(p1))
		default:
			for _, p := range mixedPrefixes {
				if p != p1 && p != p2 {
					kinds = append(kinds, tyPrefix(p))
					break
				}
			}
		}
		g.label("mixed:4-elements")
	}
	// every order
	for k := len(kinds) - 1; k > 0; k-- {
		o := g.intn("order", k+1)
		kinds[k], kinds[o] = kinds[o], kinds[k]
	}
	seenPrefix := map[string]bool{}
	for _, k := range kinds {
		if k.K == "prefix" {
			seenPrefix[k.Name] = true
		} else if len(seenPrefix) >= 2 {
			g.label("mixed:wide-after-two-narrow")
		}
	}
	n := len(kinds)
	// list or map (values mixed, keys distinct constants of exactly the case's key type)
	isMap := false
	var keys []val.V
	mk := g.s.mapKey
	if rapid.IntRange(0, 2).Draw(t, "map") == 0 {
		for k := 1; k <= n; k++ {
			switch mk.K {
			case "number":
				keys = append(keys, val.I(int64(k)))
			case "string":
				keys = append(keys, val.S(fmt.Sprintf("k%d", k)))
			case "name":
				keys = append(keys, val.N(fmt.Sprintf("/k%d", k)))
			case "prefix":
				keys = append(keys, val.N(fmt.Sprintf("%s/k%d", mk.Name, k)))
			}
		}
		isMap = len(keys) == n
	}
	collOf := func(elem Ty) Ty {
		if isMap {
			return tyMap(mk, elem)
		}
		return tyList(elem)
	}
	if isMap {
		g.label("mixed:map")
	} else {
		g.label("mixed:list")
	}
	// the declared type of a collection predicate
	declTy := func() Ty {
		switch k := pct(t, "mixed-decl"); {
		case k < 50:
			g.label("mixed:declared-join")
			return collOf(tyName)
		case k < 85:
			g.label("mixed:declared-one-element-kind")
			var narrow []Ty
			for _, kd := range kinds {
				if kd.K == "prefix" {
					narrow = append(narrow, kd)
				}
			}
			return collOf(narrow[g.intn("narrow-kind", len(narrow))])
		case k < 92:
			g.label("mixed:declared-any")
			return tyAny
		default:
			g.label("mixed:declared-mutated")
			return g.s.mutateTy(t, collOf(tyName))
		}
	}
	// the element kinds as columns of one declared extensional predicate
	row := append([]Ty{}, kinds...)
	g.p.Decls = append(g.p.Decls, declOf(edb1, n, [][]Ty{row}))
	nf := rapid.IntRange(1, 2).Draw(t, "nfacts")
	inText := rapid.Bool().Draw(t, "in-text")
	for f := 0; f < nf; f++ {
		fact := g.memberFact(edb1, row)
		if inText {
			g.p.Facts = append(g.p.Facts, fact)
		} else {
			g.extra = append(g.extra, fact)
		}
	}
	g.preds = append(g.preds, pinfo{name: edb1, arity: n, cols: row, level: -1, declared: true, rows: [][]Ty{row}})
	for _, k := range kinds {
		g.noteTy(k)
	}
	form := g.intn("mixed-form", 5) // 0: text fact, 1: both, 2..4: rule
	used := 0
	if form <= 1 && (!isMap || mk.K == "number" || mk.K == "string") {
		// a base fact in the text: the collection constant is typed like the literal
		var c val.V
		if isMap {
			c = val.V{T: val.Map}
			for k, kd := range kinds {
				c.KV = append(c.KV, [2]val.V{keys[k], genMember(t, kd)})
			}
		} else {
			c = val.V{T: val.List}
			for _, kd := range kinds {
				c.E = append(c.E, genMember(t, kd))
			}
		}
		dt := reflavour(t, declTy())
		g.noteTy(dt)
		g.p.Decls = append(g.p.Decls, declOf(edb2, 1, [][]Ty{{dt}}))
		g.p.Facts = append(g.p.Facts, prog.Atom{Pred: edb2, Args: []prog.Term{constTerm(c)}})
		g.preds = append(g.preds, pinfo{name: edb2, arity: 1, cols: []Ty{dt}, level: -1, declared: true, rows: [][]Ty{{dt}}})
		g.label("mixed:text-fact")
	}
	if form >= 1 {
		// a rule that builds the collection from the typed variables of one atom
		var atomArgs, elems []prog.Term
		for k, kd := range kinds {
			v := prog.Var(fmt.Sprintf("V%d", k+1))
			atomArgs = append(atomArgs, v)
			if chance(t, "const-element", 15) {
				elems = append(elems, constTerm(genMember(t, kd)))
				g.label("mixed:constant-element")
			} else {
				elems = append(elems, v)
			}
		}
		var term prog.Term
		if isMap {
			var kv []prog.Term
			for k := range kinds {
				kv = append(kv, constTerm(keys[k]), elems[k])
			}
			term = prog.Fn("fn:map", kv...)
		} else {
			term = prog.Fn("fn:list", elems...)
			term.Lst = rapid.Bool().Draw(t, "brackets")
		}
		name := fmt.Sprintf("i%d", level)
		rule := prog.Rule{Body: []prog.Lit{prog.PosLit(prog.Atom{Pred: edb1, Args: atomArgs})}}
		out := prog.Var("L")
		switch k := g.intn("mixed-place", 10); {
		case k < 5:
			rule.Body = append(rule.Body, prog.EqLit(out, term))
			rule.Head = prog.Atom{Pred: name, Args: []prog.Term{out}}
			g.label("mixed:rule-body-eq")
		case k < 9:
			rule.Head = prog.Atom{Pred: name, Args: []prog.Term{term}}
			g.label("mixed:rule-head-expression")
		default:
			rule.Let = []prog.LetStmt{{Var: "L", Fn: term}}
			rule.Head = prog.Atom{Pred: name, Args: []prog.Term{out}}
			g.label("mixed:rule-let")
		}
		dt := reflavour(t, declTy())
		g.noteTy(dt)
		g.p.Decls = append(g.p.Decls, declOf(name, 1, [][]Ty{{dt}}))
		g.p.Rules = append(g.p.Rules, rule)
		g.preds = append(g.preds, pinfo{name: name, arity: 1, cols: []Ty{dt}, level: level, declared: true, rows: [][]Ty{{dt}}})
		used = 1
	}
	return used
}
