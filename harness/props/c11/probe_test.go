package c11

import (
	"fmt"
	"os"
	"testing"
)

// TestProbe is a development aid: VERIF_PROBE=<file with program text> prints what the pipeline does.
func TestProbe(t *testing.T) {
	path := os.Getenv("VERIF_PROBE")
	if path == "" {
		t.Skip("VERIF_PROBE not set")
	}
	body, err := os.ReadFile(path)
	if err != nil {
		t.Fatal(err)
	}
	r := runText(string(body), nil)
	fmt.Printf("parseErr=%v\nanalysisErr=%v\npanic=%s (%s)\nevalErr=%v\n", r.out.ParseErr, r.out.AnalysisErr, r.out.Panic, r.out.PanicStage, r.out.EvalErr)
	for _, k := range r.factKeys {
		fmt.Printf("  fact %s\n", r.out.Facts[k].String())
	}
	for _, b := range r.bad {
		fmt.Printf("  ILL-TYPED %s\n", b)
	}
}
