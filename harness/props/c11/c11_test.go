// Package c11 checks property C11: if a program passes analysis with bounds checking in error mode, then
// after evaluation every stored fact of every user-declared predicate is a member of at least one declared
// bound row, as judged by the library's own run-time check (builtin.TypeChecker.CheckTypeBounds).
package c11

import (
	"encoding/json"
	"fmt"
	"strings"
	"testing"

	"codeberg.org/TauCeti/mangle-go/ast"
	"pgregory.net/rapid"
	"verif/prog"
	"verif/stats"
	"verif/val"
)

// Case is a program (declarations with bound rows as source text, base facts in the text, rules) plus the
// base facts pre-loaded into the store; Text is informational (what the parser was given).
type Case struct {
	Gen  prog.Generated `json:"gen"`
	Text string         `json:"text"`
}

type verdict struct {
	nontrivial bool
	labels     []string
}

func (c Case) hash() uint64 {
	b, _ := json.Marshal(c.Gen)
	return stats.Hash(string(b))
}

// groundAtom converts a fact of the case (constants only) to a library atom.
func groundAtom(a prog.Atom) (ast.Atom, error) {
	args := make([]ast.BaseTerm, len(a.Args))
	for i, t := range a.Args {
		if !t.IsConst() {
			return ast.Atom{}, fmt.Errorf("fact %s has a non-constant argument", a.Source())
		}
		args[i] = t.C.Build()
	}
	return ast.Atom{Predicate: ast.PredicateSym{Symbol: a.Pred, Arity: len(args)}, Args: args}, nil
}

func rejectionClass(err error) string {
	msg := err.Error()
	for _, c := range []struct{ sub, class string }{
		{"found unit clause", "unit-clause"},
		{"type mismatch for pred", "head-does-not-conform"},
		{"cannot find assignment", "premise-infeasible"},
		{"type mismatch", "premise-infeasible"},
		{"not a bound expression", "bound-expression"},
		{"could not find", "unknown-predicate"},
	} {
		if strings.Contains(msg, c.sub) {
			return c.class
		}
	}
	return "other"
}

func check(run *stats.Run, f stats.Failer, c Case) verdict {
	var v verdict
	text := c.Gen.Prog.Source()
	var extra []ast.Atom
	base := map[string]bool{} // keys of the base facts (text + pre-loaded)
	for _, a := range c.Gen.Extra {
		atom, err := groundAtom(a)
		if err != nil {
			run.Failf(f, "harness: %v", err)
		}
		extra = append(extra, atom)
		base[val.AtomKey(atom)] = true
	}
	for _, a := range c.Gen.Prog.Facts {
		if atom, err := groundAtom(a); err == nil {
			base[val.AtomKey(atom)] = true
		}
	}
	r := runText(text, extra)
	switch {
	case r.out.ParseErr != nil:
		run.Failf(f, "own printer produced text the parser rejects (harness or parser defect): %v\n%s", r.out.ParseErr, text)
	case r.out.Panic != "" && r.out.PanicStage != "eval":
		run.Failf(f, "%s with bounds checking panicked (violates C10 as well): %s\n%s", r.out.PanicStage, r.out.Panic, text)
	case r.out.Panic != "":
		run.Failf(f, "evaluation of a program accepted by bounds checking panicked: %s\n%spre-loaded: %s", r.out.Panic, text, atomsText(c.Gen.Extra))
	case r.out.AnalysisErr != nil:
		v.labels = append(v.labels, "rejected", "rejected:"+rejectionClass(r.out.AnalysisErr))
		return v
	}
	if len(r.badPre) > 0 {
		run.Failf(f, "a pre-loaded base fact, built as a member of a declared bound row, is not admitted by the run-time check:\n%s\n%s",
			strings.Join(r.badPre, "\n"), text)
	}
	v.labels = append(v.labels, "accepted")
	if r.out.EvalErr != nil {
		// not C11's subject (C04); whatever was stored before the error is still checked
		v.labels = append(v.labels, "eval-error")
	}
	if len(r.out.NonGround) > 0 {
		run.Failf(f, "non-ground facts stored: %v\n%s", r.out.NonGround, text)
	}
	if len(r.bad) > 0 {
		run.Failf(f, "program accepted by AnalyzeAndCheckBounds(ErrorForBoundsMismatch), but %d stored fact(s) of declared predicates fail CheckTypeBounds:\n%s\nprogram:\n%spre-loaded: %s",
			len(r.bad), strings.Join(r.bad, "\n"), text, atomsText(c.Gen.Extra))
	}
	// non-trivial: a rule derived at least one fact into a user-declared predicate with a bound other than /any
	heads := map[string]bool{}
	for _, rule := range c.Gen.Prog.Rules {
		heads[rule.Head.Pred] = true
	}
	derived, derivedBounded := 0, 0
	for _, k := range r.factKeys {
		a := r.out.Facts[k]
		if !heads[a.Predicate.Symbol] || base[k] {
			continue
		}
		derived++
		d, ok := r.out.Info.Decls[a.Predicate]
		if !ok || d.IsSynthetic() {
			continue
		}
		bounded := false
		for _, row := range d.Bounds {
			for _, b := range row.Bounds {
				if !b.Equals(ast.AnyBound) {
					bounded = true
				}
			}
		}
		if bounded {
			derivedBounded++
		}
	}
	if derived > 0 {
		v.labels = append(v.labels, "derives")
	}
	if derivedBounded > 0 {
		v.labels = append(v.labels, "derives-into-bounded")
		v.nontrivial = true
	}
	if r.declared > 0 {
		v.labels = append(v.labels, "checked-facts")
	}
	return v
}

func atomsText(as []prog.Atom) string {
	var parts []string
	for _, a := range as {
		parts = append(parts, a.Source())
	}
	return strings.Join(parts, ". ")
}

func genCase(t *rapid.T) Case {
	g, labels := genProgram(t)
	g.Labels = labels
	return Case{Gen: g, Text: g.Prog.Source()}
}

func TestC11(t *testing.T) {
	run := stats.Begin("C11", "TestC11")
	defer run.Finish(t)
	defer minimize(t, run)
	rapid.Check(t, func(rt *rapid.T) {
		c := genCase(rt)
		run.Current(c)
		if stats.Exclusion(exclMapKey) && strings.Contains(c.Text, "Map") {
			run.Excluded(exclMapKey) // the case's map types were built with one shared key type
		}
		if stats.Exclusion(exclStructWidth) && (strings.Contains(c.Text, "Struct") || strings.Contains(c.Text, "TaggedUnion")) {
			run.Excluded(exclStructWidth) // the case's struct types were built with one shared label set
		}
		if stats.Exclusion(exclTaggedTag) && strings.Contains(c.Text, "TaggedUnion") {
			run.Excluded(exclTaggedTag) // the case has tagged unions and therefore no other struct type
		}
		for _, l := range c.Gen.Labels {
			if l == "n7-touched" {
				run.Excluded(exclFieldOfAny)
			}
			if l == "k51-touched" {
				run.Excluded(exclMeet) // a join, scrutinee or operand was avoided because the checker's meet is unreliable there
			}
		}
		v := check(run, rt, c)
		labels := append([]string{}, v.labels...)
		for _, l := range c.Gen.Labels {
			labels = append(labels, "gen:"+l)
			if v.nontrivial {
				labels = append(labels, "nt:"+l)
			}
		}
		run.Case(v.nontrivial, c.hash(), labels...)
		if v.nontrivial {
			run.Sample("accepted-and-deriving", map[string]any{"text": c.Text, "preloaded": atomsText(c.Gen.Extra)})
		}
	})
}

// minimize post-processes rapid's shrunk failing case with a structural delta-debugging pass.
func minimize(t *testing.T, run *stats.Run) {
	if !t.Failed() {
		return
	}
	c, ok := run.Last().(Case)
	if !ok {
		return
	}
	// a smaller case counts only if it fails in the same way (same kind of message)
	class := func(msg string) string {
		if len(msg) > 24 {
			return msg[:24]
		}
		return msg
	}
	_, orig := run.Fails(func(f stats.Failer) { check(run, f, c) })
	fails := func(g prog.Generated) bool {
		failed, msg := run.Fails(func(f stats.Failer) { check(run, f, Case{Gen: g}) })
		return failed && class(msg) == class(orig)
	}
	if orig == "" {
		return
	}
	c.Gen = prog.Minimize(c.Gen, fails)
	c.Gen = dropDecls(c.Gen, fails)
	c.Text = c.Gen.Prog.Source()
	_, msg := run.Fails(func(f stats.Failer) { check(run, f, c) })
	run.Replace(c, msg)
}

// dropDecls removes let-statements, declarations and bound rows that are not needed for the failure.
func dropDecls(g prog.Generated, fails func(prog.Generated) bool) prog.Generated {
	for ri := range g.Prog.Rules {
		for li := len(g.Prog.Rules[ri].Let) - 1; li >= 0; li-- {
			c := g
			c.Prog.Rules = append([]prog.Rule{}, g.Prog.Rules...)
			lets := c.Prog.Rules[ri].Let
			c.Prog.Rules[ri].Let = append(append([]prog.LetStmt{}, lets[:li]...), lets[li+1:]...)
			if fails(c) {
				g = c
			}
		}
	}
	for i := len(g.Prog.Decls) - 1; i >= 0; i-- {
		c := g
		c.Prog.Decls = append(append([]prog.Decl{}, g.Prog.Decls[:i]...), g.Prog.Decls[i+1:]...)
		if fails(c) {
			g = c
			continue
		}
		if d := g.Prog.Decls[i]; len(d.Bounds) > 1 {
			for j := len(d.Bounds) - 1; j >= 0 && len(d.Bounds) > 1; j-- {
				nd := d
				nd.Bounds = append(append([][]string{}, d.Bounds[:j]...), d.Bounds[j+1:]...)
				c := g
				c.Prog.Decls = append([]prog.Decl{}, g.Prog.Decls...)
				c.Prog.Decls[i] = nd
				if fails(c) {
					g, d = c, nd
				}
			}
		}
	}
	return g
}

func TestReplay(t *testing.T) {
	var c Case
	if !stats.LoadReplay(t, &c) {
		return
	}
	run := stats.Begin("C11", "TestReplay")
	check(run, t, c)
}
