package c11

import (
	"fmt"
	"sort"

	"pgregory.net/rapid"
	"verif/prog"
	"verif/stats"
	"verif/val"
)

// Names of the known-finding exclusions of this property (see known_findings.json, K07b / K07c).
const (
	exclMapKey      = "K07b-map-key-variance"
	exclStructWidth = "K07c-struct-width"
	exclTaggedTag   = "C12N1-tagged-union-name-tag" // register entry K38-remainder (shared with C12)
	exclMeet        = "K51-meet-underapproximates"
	// :match_field on a scrutinee typed fn:Union(/any, fn:Struct(...)) takes the field type from the struct
	// alternative alone (symbols.StructTypeField skips /any). Repair proposed in
	// notes/proposed/C11-match-field-any-alternative.diff; the exclusion exists for the case that the
	// finding is registered as known instead.
	exclFieldOfAny = "C11N7-match-field-any-alternative"
)

type tvar struct {
	name string
	ty   Ty
	// opaque: the static checker is known to have no precise type for the variable (outputs of
	// :match_pair / :match_cons are typed by a fresh type variable, let-bound fn:struct / fn:map
	// values by /any); a head that projects it is mostly declared /any.
	opaque bool
	// groups: the types the variable can have in one inference state of the checker (one per bound row
	// of the predicate that bound it); nil = not known, see stateCandidates.
	groups []Ty
	// locked (only consulted while the exclusion K51 is active): the checker's type of the variable is
	// not known to the harness (type variable, column of an undeclared or recursive predicate, result of
	// a meet), so it is used only where no meet is computed: head, negated atoms, !=.
	locked bool
	// narrowed: the flowing type was deliberately made one step too narrow (an alternative forgotten), so
	// the variable does NOT have "exactly" its flowing type: never a key of a constructed map while all
	// map types of the case share one key type (K07b).
	narrowed bool
	// origin: index of the body literal that bound the variable.
	origin int
	// src: the column of a declared extensional predicate whose atom bound the variable (nil otherwise).
	src *colSrc
}

type colSrc struct {
	pred string
	col  int
	rows [][]Ty
}

type pinfo struct {
	name     string
	arity    int
	cols     []Ty // type flowing through each column (join over the declared rows / the rules)
	level    int  // -1 extensional, else index of the intensional predicate
	declared bool
	rows     [][]Ty // the relation type alternatives the checker works with (nil: not known)
	noJoin   bool   // undeclared intensional or recursive predicate: its relation type is not known here
}

type progGen struct {
	t      *rapid.T
	s      *shape
	labels map[string]bool
	preds  []pinfo
	p      prog.Program
	extra  []prog.Atom
	k51    bool // exclusion K51-meet-underapproximates active
	// the unions of leaf types drawn so far as column types: later ones are derived from them
	leafUnions []Ty
	// the case's (wider, narrower) pair of element types for fn:list:append / fn:list:cons (see related_test.go)
	subW, subN Ty
	hasSub     bool
}

func (g *progGen) label(l string) { g.labels[l] = true }

// touch records that the K51 exclusion removed a choice the unconstrained generator could have made.
func (g *progGen) touch() { g.labels["k51-touched"] = true }

func (g *progGen) intn(label string, n int) int { return rapid.IntRange(0, n-1).Draw(g.t, label) }

// depth of a declared column type: mostly shallow, sometimes 2.
func (g *progGen) colTy() Ty {
	d := []int{0, 0, 0, 1, 1, 1, 1, 2, 2}[g.intn("depth", 9)]
	var ty Ty
	share := 25
	if len(g.leafUnions) > 0 {
		share = 50 // such unions come in groups: one alone meets nothing
	}
	subShare := 12
	if g.hasSub {
		subShare = 55 // the list and the other argument come as columns of one case
	}
	if chance(g.t, "leaf-union-column", share) {
		// a union of two or three leaf types that shares alternatives with the other such unions of the case
		u := genLeafUnion(g.t, g.leafUnions)
		g.leafUnions = append(g.leafUnions, u)
		ty = reflavour(g.t, u)
		g.label("ty:leaf-union")
	} else if chance(g.t, "subtype-list-column", subShare) {
		ty = g.subColTy()
	} else if g.s.taggedCase && (!g.s.fixLabels || g.s.fixTagged || hasLabel(g.s.labels, tagField)) && chance(g.t, "tagged-column", 12) {
		ty = g.s.genTagged(g.t)
	} else {
		ty = g.s.genTy(g.t, d)
	}
	g.noteTy(ty)
	return ty
}

func (g *progGen) noteTy(ty Ty) {
	for _, k := range []string{"union", "pair", "list", "map", "struct", "tagged", "singleton", "prefix"} {
		if ty.contains(k) {
			g.label("ty:" + k)
		}
	}
	if hasDot(ty) {
		g.label("ty:dot-syntax")
	}
	if hasFnSyntax(ty) {
		g.label("ty:fn-syntax")
	}
	if hasOpt(ty) {
		g.label("ty:opt-field")
	}
}

func hasDot(ty Ty) bool {
	if !ty.isLeaf() && ty.Dot || ty.K == "singleton" && ty.Dot {
		return true
	}
	for _, a := range ty.Args {
		if hasDot(a) {
			return true
		}
	}
	for _, f := range ty.Fields {
		if hasDot(f.T) {
			return true
		}
	}
	return false
}

func hasFnSyntax(ty Ty) bool {
	if (!ty.isLeaf() || ty.K == "singleton") && !ty.Dot {
		return true
	}
	for _, a := range ty.Args {
		if hasFnSyntax(a) {
			return true
		}
	}
	for _, f := range ty.Fields {
		if hasFnSyntax(f.T) {
			return true
		}
	}
	return false
}

func hasOpt(ty Ty) bool {
	for _, f := range ty.Fields {
		if f.Opt || hasOpt(f.T) {
			return true
		}
	}
	for _, a := range ty.Args {
		if hasOpt(a) {
			return true
		}
	}
	return false
}

// textSafe: constants of such a type written in the program text get an inferred type that the static
// checker can relate to the declaration. Singletons and unions below the top level never conform, a
// pair constant is typed /any, map keys are contravariant (only an exactly inferred key type conforms);
// any of these would reject the whole program, so such facts are pre-loaded instead.
func textSafe(ty Ty, top bool) bool {
	switch ty.K {
	case "singleton", "pair":
		return false
	case "union":
		if !top {
			return false
		}
	case "tagged":
		return top
	case "map":
		if k := ty.Args[0].K; k != "number" && k != "string" {
			return false
		}
	}
	for _, a := range ty.Args {
		if !textSafe(a, ty.K == "union" && top) {
			return false
		}
	}
	for _, f := range ty.Fields {
		if f.Opt || !textSafe(f.T, false) {
			return false
		}
	}
	return true
}

// textSafeValue: an empty map constant is typed fn:Map(fn:Union(), fn:Union()), which conforms to nothing.
func textSafeValue(v val.V) bool {
	if v.T == val.Map && len(v.KV) == 0 || v.T == val.Pair {
		return false
	}
	for _, e := range v.E {
		if !textSafeValue(e) {
			return false
		}
	}
	for _, kv := range v.KV {
		if !textSafeValue(kv[0]) || !textSafeValue(kv[1]) {
			return false
		}
	}
	return true
}

func joinCols(rows [][]Ty) []Ty {
	cols := append([]Ty{}, rows[0]...)
	for _, row := range rows[1:] {
		for i := range cols {
			cols[i] = joinTy(cols[i], row[i])
		}
	}
	return cols
}

func declOf(name string, arity int, rows [][]Ty) prog.Decl {
	d := prog.Decl{Pred: name, Arity: arity}
	for _, row := range rows {
		d.Bounds = append(d.Bounds, sources(row))
	}
	return d
}

func constTerm(v val.V) prog.Term { return prog.Const(v) }

// pct draws 0..99 from two decimal digits (rapid's IntRange over a wide range is heavily biased towards
// its lower bound; digit-wise the distribution is close to uniform).
func pct(t *rapid.T, label string) int {
	return 10*rapid.IntRange(0, 9).Draw(t, label) + rapid.IntRange(0, 9).Draw(t, label+"'")
}

// chance is true with a probability of about p percent.
func chance(t *rapid.T, label string, p int) bool { return pct(t, label) >= 100-p }

// genProgram draws a whole case.
func genProgram(t *rapid.T) (prog.Generated, []string) {
	g := &progGen{t: t, labels: map[string]bool{}, k51: stats.Exclusion(exclMeet)}
	s := &shape{fixKey: stats.Exclusion(exclMapKey), fixLabels: stats.Exclusion(exclStructWidth)}
	s.mapKey = genKeyTy(t)
	nl := rapid.IntRange(1, 2).Draw(t, "nlabels")
	first := rapid.IntRange(0, 1).Draw(t, "firstlabel")
	s.labels = append(s.labels, labelPool[first:first+nl]...)
	s.fixTagged = stats.Exclusion(exclTaggedTag)
	s.taggedCase = rapid.Bool().Draw(t, "tagged-case")
	if !s.fixTagged && s.taggedCase {
		s.labels = append([]string{tagField}, s.labels...)
	}
	g.s = s

	// extensional predicates
	ne := rapid.IntRange(1, 3).Draw(t, "nedb")
	for i := 0; i < ne; i++ {
		g.genEDB(fmt.Sprintf("e%d", i))
	}
	// intensional predicates, in levels
	ni := rapid.IntRange(1, 3).Draw(t, "nidb")
	level := 0
	if chance(t, "chain", 5) {
		g.genChain(fmt.Sprintf("e%d", ne), level)
		level += 2
	}
	if chance(t, "mixed-literal", 9) {
		level += g.genMixed(fmt.Sprintf("e%d", ne+1), fmt.Sprintf("e%d", ne+2), level)
	}
	for i := 0; i < ni; i++ {
		g.genIDB(level + i)
	}
	// occasionally one text fact of a DECLARED predicate is replaced by a constant of a foreign kind: bounds
	// checking must reject the program (for an undeclared predicate the fact would merely widen the
	// inferred type)
	var declaredFacts []int
	for i, f := range g.p.Facts {
		for _, p := range g.preds {
			if p.name == f.Pred && p.declared {
				declaredFacts = append(declaredFacts, i)
			}
		}
	}
	if len(declaredFacts) > 0 && chance(t, "illfact", 4) {
		i := declaredFacts[g.intn("which", len(declaredFacts))]
		f := g.p.Facts[i]
		f.Args = append([]prog.Term{}, f.Args...)
		j := g.intn("arg", len(f.Args))
		f.Args[j] = constTerm(genForeign(t, tyAny))
		g.p.Facts[i] = f
		g.label("foreign-text-fact")
	}
	// occasionally: a predicate bound by a base type with a text fact that is a NAME beginning like a base type
	// (/time/x, /number/x, ...). Such a name is a member of /name and /any only; with any other bound the
	// program has to be rejected (the checker types name constants by the longest known name prefix).
	if chance(t, "baselike", 4) {
		bound := pick(t, "baselikeBound", "/time", "/duration", "/number", "/string", "/float64", "/bytes", "/name", "/any", "/time", "/duration")
		name := pick(t, "baselikeName", "/time/x", "/duration/x", "/number/x", "/string/x", "/float64/x", "/bytes/x", "/name/x", "/any/x", "/bot/x", "/time/x/y")
		g.p.Decls = append(g.p.Decls, prog.Decl{Pred: "z0", Arity: 1, Bounds: [][]string{{bound}}})
		g.p.Facts = append(g.p.Facts, prog.Atom{Pred: "z0", Args: []prog.Term{constTerm(val.N(name))}})
		if rapid.Bool().Draw(t, "baselikeRule") {
			g.p.Decls = append(g.p.Decls, prog.Decl{Pred: "z1", Arity: 1, Bounds: [][]string{{bound}}})
			g.p.Rules = append(g.p.Rules, prog.Rule{Head: prog.Atom{Pred: "z1", Args: []prog.Term{prog.Var("X")}},
				Body: []prog.Lit{prog.PosLit(prog.Atom{Pred: "z0", Args: []prog.Term{prog.Var("X")}})}})
		}
		g.label("base-like-name-constant")
	}
	var labels []string
	for l := range g.labels {
		labels = append(labels, l)
	}
	sort.Strings(labels)
	return prog.Generated{Prog: g.p, Extra: g.extra}, labels
}

func (g *progGen) genEDB(name string) {
	t := g.t
	arity := []int{1, 1, 1, 2}[g.intn("arity", 4)]
	info := pinfo{name: name, arity: arity, level: -1}
	if chance(t, "undeclared", 12) {
		// no declaration: the type is inferred from the facts in the text (one or two kinds of values)
		g.label("edb-undeclared")
		leafs := []Ty{tyNumber, tyString, tyName, tyNumber}
		rows := [][]Ty{nil}
		for c := 0; c < arity; c++ {
			rows[0] = append(rows[0], leafs[g.intn("leaf", len(leafs))])
		}
		if chance(t, "second-kind", 35) {
			row := append([]Ty{}, rows[0]...)
			row[g.intn("col", arity)] = leafs[g.intn("leaf", len(leafs))]
			rows = append(rows, row)
		}
		info.cols = joinCols(rows)
		info.rows = rows
		for _, row := range rows {
			n := rapid.IntRange(1, 2).Draw(t, "nfacts")
			for i := 0; i < n; i++ {
				g.p.Facts = append(g.p.Facts, g.memberFact(name, row))
			}
		}
		g.preds = append(g.preds, info)
		return
	}
	info.declared = true
	nrows := []int{1, 1, 1, 1, 2}[g.intn("nrows", 5)]
	var rows [][]Ty
	for r := 0; r < nrows; r++ {
		var row []Ty
		if r > 0 && rapid.Bool().Draw(t, "related-row") {
			// a second row that differs from the first by one step in one column (same shape, other
			// component): alternatives the checker has to keep apart
			row = append(row, rows[0]...)
			c := g.intn("col", arity)
			row[c] = reflavour(t, g.s.mutateTy(t, row[c]))
			g.noteTy(row[c])
			g.label("edb-related-rows")
		} else {
			for c := 0; c < arity; c++ {
				row = append(row, g.colTy())
			}
		}
		rows = append(rows, row)
	}
	if nrows > 1 {
		g.label("edb-two-rows")
	}
	info.cols = joinCols(rows)
	info.rows = rows
	g.p.Decls = append(g.p.Decls, declOf(name, arity, rows))
	n := rapid.IntRange(1, 4).Draw(t, "nfacts")
	for i := 0; i < n; i++ {
		row := rows[g.intn("row", len(rows))]
		f := g.memberFact(name, row)
		safe := true
		for i, ty := range row {
			safe = safe && textSafe(ty, true) && textSafeValue(*f.Args[i].C)
		}
		if safe && rapid.Bool().Draw(t, "in-text") {
			g.p.Facts = append(g.p.Facts, f)
			g.label("edb-text-fact")
		} else {
			g.extra = append(g.extra, f)
			g.label("edb-preloaded-fact")
		}
	}
	g.preds = append(g.preds, info)
}

// genChain adds an undeclared predicate with a unit clause and a recursive rule whose argument types
// appear round by round, and a declared consumer:
//
//	Decl eK(A, B) bound [T0, T1] bound [T1, T2].   eK(m0, m1). eK(m1, m2).
//	iL(m0).   iL(Y) :- iL(X), eK(X, Y).            (no declaration: the relation type is inferred)
//	Decl iL+1(A) bound ... .   iL+1(V) :- iL(V).
//
// The consumer is declared either with all three types or (one step too narrow, must be rejected) with the
// types of the first round only.
func (g *progGen) genChain(edb string, level int) {
	t := g.t
	pool := []Ty{tyNumber, tyString, tyName, tyFloat}
	i0 := g.intn("t0", 4)
	pool[0], pool[i0] = pool[i0], pool[0]
	i1 := 1 + g.intn("t1", 3)
	pool[1], pool[i1] = pool[i1], pool[1]
	i2 := 2 + g.intn("t2", 2)
	pool[2], pool[i2] = pool[i2], pool[2]
	t0, t1, t2 := pool[0], pool[1], pool[2]
	m0, m1, m2 := genMember(t, t0), genMember(t, t1), genMember(t, t2)
	rows := [][]Ty{{t0, t1}, {t1, t2}}
	g.p.Decls = append(g.p.Decls, declOf(edb, 2, rows))
	facts := []prog.Atom{
		{Pred: edb, Args: []prog.Term{constTerm(m0), constTerm(m1)}},
		{Pred: edb, Args: []prog.Term{constTerm(m1), constTerm(m2)}},
	}
	if rapid.Bool().Draw(t, "in-text") {
		g.p.Facts = append(g.p.Facts, facts...)
	} else {
		g.extra = append(g.extra, facts...)
	}
	g.preds = append(g.preds, pinfo{name: edb, arity: 2, cols: joinCols(rows), level: -1, declared: true, rows: rows})
	rec := fmt.Sprintf("i%d", level)
	g.p.Facts = append(g.p.Facts, prog.Atom{Pred: rec, Args: []prog.Term{constTerm(m0)}})
	g.p.Rules = append(g.p.Rules, prog.Rule{
		Head: prog.Atom{Pred: rec, Args: []prog.Term{prog.Var("Y")}},
		Body: []prog.Lit{
			prog.PosLit(prog.Atom{Pred: rec, Args: []prog.Term{prog.Var("X")}}),
			prog.PosLit(prog.Atom{Pred: edb, Args: []prog.Term{prog.Var("X"), prog.Var("Y")}}),
		},
	})
	alts := []Ty{t0, t1, t2}
	if rapid.Bool().Draw(t, "first-round-only") {
		alts = alts[:2]
		g.label("chain-first-round-types-only")
	} else {
		g.label("chain-all-types")
	}
	g.preds = append(g.preds, pinfo{name: rec, arity: 1, cols: []Ty{tyUnion(alts...)}, level: level, noJoin: true})
	g.label("recursive-undeclared-with-unit-clause")
	// the declared consumer
	cons := fmt.Sprintf("i%d", level+1)
	var declRows [][]Ty
	if rapid.Bool().Draw(t, "row-per-type") {
		for _, a := range alts {
			declRows = append(declRows, []Ty{a})
		}
	} else {
		declRows = [][]Ty{{Ty{K: "union", Args: alts, Dot: rapid.Bool().Draw(t, "dot")}}}
	}
	g.p.Decls = append(g.p.Decls, declOf(cons, 1, declRows))
	g.p.Rules = append(g.p.Rules, prog.Rule{
		Head: prog.Atom{Pred: cons, Args: []prog.Term{prog.Var("V")}},
		Body: []prog.Lit{prog.PosLit(prog.Atom{Pred: rec, Args: []prog.Term{prog.Var("V")}})},
	})
	g.preds = append(g.preds, pinfo{name: cons, arity: 1, cols: joinCols(declRows), level: level + 1, declared: true, rows: declRows})
}

func (g *progGen) memberFact(name string, row []Ty) prog.Atom {
	a := prog.Atom{Pred: name}
	for _, ty := range row {
		a.Args = append(a.Args, constTerm(genMember(g.t, ty)))
	}
	return a
}

func (g *progGen) genIDB(level int) {
	t := g.t
	name := fmt.Sprintf("i%d", level)
	arity := []int{1, 1, 2}[g.intn("arity", 3)]
	nrules := []int{1, 1, 2}[g.intn("nrules", 3)]
	var rows [][]Ty
	for r := 0; r < nrules; r++ {
		rg := &ruleGen{g: g, level: level}
		if r > 0 && chance(t, "recursive", 25) {
			rg.self = &pinfo{name: name, arity: arity, cols: joinCols(rows), level: level, noJoin: true}
			g.label("recursive-rule")
		}
		rule, types := rg.gen(name, arity)
		g.p.Rules = append(g.p.Rules, rule)
		rows = append(rows, types)
	}
	info := pinfo{name: name, arity: arity, level: level}
	// distinct rows
	var distinct [][]Ty
	seen := map[string]bool{}
	for _, row := range rows {
		k := fmt.Sprint(sources(plainRow(row)))
		if !seen[k] {
			seen[k] = true
			distinct = append(distinct, row)
		}
	}
	if chance(t, "idb-undeclared", 12) {
		g.label("idb-undeclared")
		info.cols = joinCols(distinct)
		info.noJoin = true
		g.preds = append(g.preds, info)
		return
	}
	info.declared = true
	declRows := distinct
	switch k := pct(t, "declshape"); {
	case k < 65:
	case k < 85:
		declRows = [][]Ty{joinCols(distinct)}
	default:
		declRows = [][]Ty{joinCols(distinct)}
		for i := range declRows[0] {
			if rapid.Bool().Draw(t, "to-any") {
				declRows[0][i] = tyAny
			}
		}
		g.label("head-bound-any")
	}
	// syntax flavour of the declared copy is drawn afresh
	declRows = copyRows(declRows)
	for _, row := range declRows {
		for i := range row {
			row[i] = reflavour(t, row[i])
		}
	}
	if chance(t, "off-by-one", 15) {
		r := g.intn("row", len(declRows))
		c := g.intn("col", arity)
		declRows[r][c] = g.s.mutateTy(t, declRows[r][c])
		g.label("head-bound-mutated")
	} else {
		g.label("head-bound-from-body")
	}
	for _, row := range declRows {
		for _, ty := range row {
			g.noteTy(ty)
		}
	}
	info.cols = joinCols(declRows)
	info.rows = declRows
	g.p.Decls = append(g.p.Decls, declOf(name, arity, declRows))
	// occasionally a base fact of the intensional predicate in the text
	if chance(t, "idb-fact", 10) {
		row := declRows[g.intn("row", len(declRows))]
		safe := true
		for _, ty := range row {
			safe = safe && textSafe(ty, true)
		}
		f := g.memberFact(name, row)
		for i := range row {
			safe = safe && textSafeValue(*f.Args[i].C)
		}
		if safe {
			g.p.Facts = append(g.p.Facts, f)
			g.label("idb-text-fact")
		}
	}
	g.preds = append(g.preds, info)
}

func plainRow(row []Ty) []Ty {
	res := make([]Ty, len(row))
	for i, t := range row {
		res[i] = t.plain()
	}
	return res
}

func copyRows(rows [][]Ty) [][]Ty {
	res := make([][]Ty, len(rows))
	for i, r := range rows {
		res[i] = append([]Ty{}, r...)
	}
	return res
}

// reflavour redraws the syntax flavour (fn:T(…) vs .T<…>) of every node.
func reflavour(t *rapid.T, ty Ty) Ty {
	res := ty
	if !ty.isLeaf() || ty.K == "singleton" {
		res.Dot = rapid.Bool().Draw(t, "dot")
	}
	res.Args = nil
	for _, a := range ty.Args {
		res.Args = append(res.Args, reflavour(t, a))
	}
	res.Fields = nil
	for _, f := range ty.Fields {
		res.Fields = append(res.Fields, Field{f.Label, reflavour(t, f.T), f.Opt})
	}
	return res
}

// ---------------------------------------------------------------------------------------------
// Rules.

type ruleGen struct {
	g     *progGen
	level int
	self  *pinfo // the head predicate itself, for a recursive rule
	env   []tvar
	body  []prog.Lit
	lets  []prog.LetStmt
	nvar  int
	// equated: the variables of the steps X = Y (their types were refined last; the head prefers them)
	equated []string
	// featured: variables that hold the value of a construction the head should prefer
	featured []string
	// last: what the last call of construct says about its value (see constructInfo)
	last constructInfo
}

func (r *ruleGen) fresh(ty Ty) string {
	r.nvar++
	name := fmt.Sprintf("V%d", r.nvar)
	r.env = append(r.env, tvar{name: name, ty: ty, origin: len(r.body)})
	return name
}

func (r *ruleGen) markOpaque(terms ...prog.Term) {
	for _, t := range terms {
		for i := range r.env {
			if t.IsVar() && r.env[i].name == t.Var {
				r.env[i].opaque = true
				r.env[i].locked = true
			}
		}
	}
}

func (r *ruleGen) setTy(name string, ty Ty) {
	for i := range r.env {
		if r.env[i].name == name {
			r.env[i].ty = ty
		}
	}
}

func (r *ruleGen) markNarrowed(name string) {
	for i := range r.env {
		if r.env[i].name == name {
			r.env[i].narrowed = true
		}
	}
}

func (r *ruleGen) lock(name string) {
	for i := range r.env {
		if r.env[i].name == name {
			r.env[i].locked = true
		}
	}
}

// live: the variables that may be used where the checker computes a meet or types a function
// application (all of them unless the exclusion K51 is active).
func (r *ruleGen) live() []tvar {
	if !r.g.k51 {
		return r.env
	}
	var res []tvar
	for _, v := range r.env {
		if v.locked {
			r.g.touch()
		} else {
			res = append(res, v)
		}
	}
	return res
}

// unionWithAny: some state type of the variable is a union that has /any among its members.
func unionWithAny(v tvar) bool {
	for _, g := range append(cands(v), v.ty) {
		if g.K == "union" {
			for _, a := range g.Args {
				if a.K == "any" {
					return true
				}
			}
		}
	}
	return false
}

func cands(v tvar) []Ty {
	if v.groups != nil {
		return v.groups
	}
	return stateCandidates(v.ty)
}

func colCands(p pinfo, i int) []Ty {
	if p.rows == nil {
		return stateCandidates(p.cols[i])
	}
	var res []Ty
	for _, row := range p.rows {
		res = append(res, row[i])
	}
	return res
}

// joinSafe (K51): the variable may be re-used at column i of p if every type it can have in a state and
// every alternative of the column are equal, comparable or certainly disjoint.
func (r *ruleGen) joinSafe(v tvar, p pinfo, i int) (ok, identical bool) {
	if v.locked || p.noJoin {
		return false, false
	}
	identical = true
	for _, g := range cands(v) {
		for _, h := range colCands(p, i) {
			if !meetSafe(g, h) {
				return false, false
			}
			identical = identical && g.key() == h.key()
		}
	}
	return true, identical
}

// destructurable (K51): no state type of the scrutinee is a union that contains a member of the
// destructured kind (the checker then finds no feasible alternative although the premise can succeed);
// for pairs and lists no singleton inside either (a singleton never conforms to the type variable of the
// polymorphic relation type).
func (r *ruleGen) destructurable(v tvar, kind string) bool {
	if !r.g.k51 {
		return true
	}
	if v.locked {
		return false
	}
	for _, g := range cands(v) {
		if g.K == "union" || g.K == "tagged" {
			for _, a := range alternatives(g) {
				if a.K == kind {
					return false
				}
			}
		}
		if g.K == kind && kind != "map" && g.contains("singleton") {
			return false
		}
	}
	return true
}

// component gives, for a variable of type ty, the type seen by a destructuring of the wanted kind: the
// alternative of that kind, or – for a union / tagged union with several such alternatives – their
// component-wise join (so the flowing types stay upper bounds of the values).
func component(ty Ty, kind string) (Ty, bool) {
	var alts []Ty
	switch {
	case ty.K == kind:
		return ty, true
	case ty.K == "union":
		for _, a := range ty.Args {
			if a.K == kind {
				alts = append(alts, a)
			} else if a.K == "tagged" && kind == "struct" {
				for i := range a.Fields {
					alts = append(alts, a.variantStruct(i))
				}
			}
		}
	case ty.K == "tagged" && kind == "struct":
		for i := range ty.Fields {
			alts = append(alts, ty.variantStruct(i))
		}
	case ty.K == "any":
		switch kind {
		case "pair":
			return tyPair(tyAny, tyAny), true
		case "list":
			return tyList(tyAny), true
		case "map":
			return tyMap(tyAny, tyAny), true
		}
	}
	if len(alts) == 0 {
		return Ty{}, false
	}
	res := alts[0]
	for _, a := range alts[1:] {
		switch kind {
		case "struct":
			// a field can be matched in any alternative that has it
			merged := append([]Field{}, res.Fields...)
			for _, f := range a.Fields {
				found := false
				for i := range merged {
					if merged[i].Label == f.Label {
						merged[i].T = joinTy(merged[i].T, f.T)
						found = true
					}
				}
				if !found {
					merged = append(merged, f)
				}
			}
			res = tyStruct(merged...)
		default:
			args := make([]Ty, len(res.Args))
			for i := range args {
				args[i] = joinTy(res.Args[i], a.Args[i])
			}
			res = Ty{K: kind, Args: args}
		}
	}
	return res, true
}

func (r *ruleGen) varsWith(kind string) []tvar {
	var res []tvar
	for _, v := range r.live() {
		if _, ok := component(v.ty, kind); ok {
			// a scrutinee of type /any is offered, but rarely chosen (see pickVar)
			if !r.destructurable(v, kind) {
				r.g.touch()
				continue
			}
			res = append(res, v)
		}
	}
	return res
}

// plainVars: variables whose type is exactly of the given kind (no union, not /any): the only operands
// of typed functions (fn:list:*, fn:map:get, fn:struct:get) while K51 is active – for any other operand
// type the application cannot be typed and the checker drops the alternative.
func (r *ruleGen) plainVars(kind string) []tvar {
	if !r.g.k51 {
		return r.varsWith(kind)
	}
	var res []tvar
	for _, v := range r.live() {
		if v.ty.K == kind {
			res = append(res, v)
		} else if _, ok := component(v.ty, kind); ok {
			r.g.touch()
		}
	}
	return res
}

func (r *ruleGen) varsOfKey(key string) []tvar {
	var res []tvar
	for _, v := range r.live() {
		if v.ty.key() == key {
			res = append(res, v)
		}
	}
	return res
}

func (r *ruleGen) pickVar(label string, vs []tvar) tvar {
	// prefer variables whose type is not /any
	var precise []tvar
	for _, v := range vs {
		if v.ty.K != "any" {
			precise = append(precise, v)
		}
	}
	if len(precise) > 0 && !chance(r.g.t, "imprecise", 20) {
		vs = precise
	}
	return vs[r.g.intn(label, len(vs))]
}

// out draws the term for an output position of a built-in: a fresh variable of type ty (the mode
// check of the analysis rejects bound variables and constants there), sometimes a wildcard.
func (r *ruleGen) out(ty Ty) prog.Term {
	if chance(r.g.t, "out", 6) {
		return prog.Var("_")
	}
	return prog.Var(r.fresh(ty))
}

func (r *ruleGen) atomArgs(p pinfo) []prog.Term {
	t := r.g.t
	var args []prog.Term
	var pending []tvar
	reused := false
	// reuse: may the bound variable v be joined at column i? While K51 is active only one bound variable
	// per atom (the checker compares whole tuples, in one direction) and only if the meet is reliable.
	reuse := func(v tvar, i int) bool {
		if !r.g.k51 {
			return true
		}
		ok, identical := r.joinSafe(v, p, i)
		if reused || !ok {
			r.g.touch()
			return false
		}
		reused = true
		if !identical {
			r.lock(v.name) // from now on its type is the result of a meet
		}
		return true
	}
	for i, col := range p.cols {
		same := r.varsOfKey(col.key())
		fresh := func() {
			r.nvar++
			v := tvar{name: fmt.Sprintf("V%d", r.nvar), ty: col, locked: p.noJoin, origin: len(r.body)}
			if p.level < 0 && p.declared && p.rows != nil {
				v.src = &colSrc{pred: p.name, col: i, rows: p.rows}
			}
			if p.rows != nil {
				seen := map[string]bool{}
				for _, row := range p.rows {
					if !seen[row[i].key()] {
						seen[row[i].key()] = true
						v.groups = append(v.groups, row[i])
					}
				}
			}
			pending = append(pending, v)
			args = append(args, prog.Var(v.name))
		}
		switch k := pct(t, "arg"); {
		case k < 30 && len(same) > 0:
			if v := same[r.g.intn("reuse", len(same))]; reuse(v, i) {
				args = append(args, prog.Var(v.name))
				r.g.label("join")
			} else {
				fresh()
			}
		case k >= 30 && k < 32 && len(r.env) > 0:
			// join across different declared types: the checker must intersect them
			if v := r.env[r.g.intn("reuse-any", len(r.env))]; reuse(v, i) {
				args = append(args, prog.Var(v.name))
				r.g.label("join-across-types")
			} else {
				fresh()
			}
		case k < 90:
			fresh()
		case k < 96:
			args = append(args, constTerm(genMember(t, col)))
			r.g.label("const-in-atom")
		default:
			args = append(args, prog.Var("_"))
		}
	}
	r.env = append(r.env, pending...)
	return args
}

func (r *ruleGen) available(strictlyLower bool) []pinfo {
	var res []pinfo
	for _, p := range r.g.preds {
		if p.level < r.level {
			res = append(res, p)
		}
	}
	if r.self != nil && !strictlyLower {
		res = append(res, *r.self)
	}
	return res
}

// subPreds: the predicates with a column typed by the case's (wider, narrower) pair or a list of them, of
// a kind (list / other argument) the body has not bound yet.
func (r *ruleGen) subPreds(preds []pinfo) []pinfo {
	g := r.g
	haveList, haveElem := false, false
	isList := func(ty Ty) bool { return ty.key() == tyList(g.subW).key() || ty.key() == tyList(g.subN).key() }
	isElem := func(ty Ty) bool { return ty.key() == g.subW.key() || ty.key() == g.subN.key() }
	for _, v := range r.env {
		haveList = haveList || isList(v.ty)
		haveElem = haveElem || isElem(v.ty)
	}
	var res []pinfo
	for _, p := range preds {
		if p.noJoin {
			continue
		}
		for _, c := range p.cols {
			if isList(c) && !haveList || isElem(c) && !haveElem {
				res = append(res, p)
				break
			}
		}
	}
	return res
}

// def emits "V = expr" (in the body or as a let-transform) and binds V.
func (r *ruleGen) def(expr prog.Term, ty Ty, asLet bool) {
	if asLet {
		r.nvar++
		name := fmt.Sprintf("V%d", r.nvar)
		r.lets = append(r.lets, prog.LetStmt{Var: name, Fn: expr})
		opaque := expr.Fn == "fn:struct" || expr.Fn == "fn:map" || expr.Fn == "fn:list" && len(expr.Args) != 1
		r.env = append(r.env, tvar{name: name, ty: ty, opaque: opaque})
		r.g.label("let-transform")
		r.applyLast(name)
		return
	}
	v := r.fresh(ty)
	r.body = append(r.body, prog.EqLit(prog.Var(v), expr))
	r.applyLast(v)
}

// applyLast marks the variable that holds the value of the last construction.
func (r *ruleGen) applyLast(name string) {
	if r.last.lock {
		r.lock(name)
	}
	if r.last.narrowed {
		r.markNarrowed(name)
	}
	if r.last.feature {
		r.featured = append(r.featured, name)
	}
	r.last = constructInfo{}
}

func constTy(v val.V) Ty {
	switch v.T {
	case val.Num:
		return tyNumber
	case val.Str:
		return tyString
	case val.Float:
		return tyFloat
	case val.Name:
		return tyName
	}
	return tyAny
}

// operand: a bound variable or (sometimes) a constant, with its flowing type.
func (r *ruleGen) operand() (prog.Term, Ty) {
	live := r.live()
	if len(live) == 0 || chance(r.g.t, "const-operand", 15) {
		v := genMember(r.g.t, []Ty{tyNumber, tyString, tyName}[r.g.intn("kind", 3)])
		return constTerm(v), constTy(v)
	}
	vs := live
	if !chance(r.g.t, "any-operand", 15) {
		// a union-typed operand inside a constructor gives a type the checker cannot relate to a
		// declaration (no unions below the top level), so plain types are preferred
		var plain []tvar
		for _, v := range live {
			if v.ty.K != "union" && v.ty.K != "tagged" && v.ty.K != "any" && !v.opaque {
				plain = append(plain, v)
			}
		}
		if len(plain) > 0 {
			vs = plain
		}
	}
	v := r.pickVar("operand", vs)
	return prog.Var(v.name), v.ty
}

func (r *ruleGen) operandOf(keys ...string) (prog.Term, Ty, bool) {
	var vs []tvar
	for _, k := range keys {
		vs = append(vs, r.varsOfKey(k)...)
	}
	if len(vs) == 0 {
		return prog.Term{}, Ty{}, false
	}
	v := vs[r.g.intn("operand-of", len(vs))]
	return prog.Var(v.name), v.ty, true
}

// construct draws a constructing expression over the bound variables.
func (r *ruleGen) construct() (prog.Term, Ty, bool) {
	g := r.g
	t := g.t
	type cand struct {
		name string
		mk   func() (prog.Term, Ty, bool)
	}
	var cands []cand
	add := func(name string, mk func() (prog.Term, Ty, bool)) { cands = append(cands, cand{name, mk}) }
	r.last = constructInfo{}
	if sub := r.subtypePairs(); len(sub) > 0 {
		for i := 0; i < 3; i++ {
			add("list-fn-subtype-args", func() (prog.Term, Ty, bool) { return r.subtypeListFn(sub) })
		}
	}
	add("fn:pair", func() (prog.Term, Ty, bool) {
		a, ta := r.operand()
		b, tb := r.operand()
		return prog.Fn("fn:pair", a, b), tyPair(ta, tb), true
	})
	add("fn:list", func() (prog.Term, Ty, bool) {
		a, ta := r.operand()
		if rapid.Bool().Draw(t, "two") {
			b, tb := r.operand()
			res := prog.Fn("fn:list", a, b)
			res.Lst = rapid.Bool().Draw(t, "brackets")
			return res, tyList(joinTy(ta, tb)), true
		}
		return prog.Fn("fn:list", a), tyList(ta), true
	})
	add("fn:map", func() (prog.Term, Ty, bool) {
		var k prog.Term
		var tk Ty
		if g.s.fixKey {
			// keys of exactly the case's key type only
			var ok bool
			var exact []tvar
			for _, v := range r.varsOfKey(g.s.mapKey.key()) {
				if !v.narrowed {
					exact = append(exact, v)
				}
			}
			if ok = len(exact) > 0; ok {
				v := exact[g.intn("operand-of", len(exact))]
				k, tk = prog.Var(v.name), v.ty
			}
			if !ok || rapid.IntRange(0, 2).Draw(t, "const-key") == 0 {
				if g.s.mapKey.K == "any" {
					return prog.Term{}, Ty{}, false
				}
				k, tk = constTerm(genMember(t, g.s.mapKey)), g.s.mapKey
			}
		} else {
			k, tk = r.operand()
		}
		v, tv := r.operand()
		return prog.Fn("fn:map", k, v), tyMap(tk, tv), true
	})
	add("fn:struct", func() (prog.Term, Ty, bool) {
		if g.s.fixTagged && g.s.taggedCase {
			return prog.Term{}, Ty{}, false
		}
		labels := g.s.labels
		if !g.s.fixLabels {
			n := rapid.IntRange(0, 2).Draw(t, "nfields")
			start := rapid.IntRange(0, 1).Draw(t, "firstlabel")
			labels = labelPool[start : start+n]
		}
		var args []prog.Term
		var fields []Field
		for _, l := range labels {
			var a prog.Term
			var ta Ty
			if l == tagField {
				a, ta = constTerm(val.N(variantTags[g.intn("tag", 2)])), tyName
			} else {
				a, ta = r.operand()
			}
			args = append(args, constTerm(val.N(l)), a)
			fields = append(fields, Field{Label: l, T: ta})
		}
		return prog.Fn("fn:struct", args...), tyStruct(fields...), true
	})
	if num, _, ok := r.operandOf("/number"); ok {
		add("arith", func() (prog.Term, Ty, bool) {
			fn := pick(t, "arith", "fn:plus", "fn:minus", "fn:mult")
			var other prog.Term = prog.Num(1)
			if o, _, ok := r.operandOf("/number"); ok && rapid.Bool().Draw(t, "var-operand") {
				other = o
			}
			return prog.Fn(fn, num, other), tyNumber, true
		})
		add("fn:number:to_string", func() (prog.Term, Ty, bool) { return prog.Fn("fn:number:to_string", num), tyString, true })
	}
	if str, _, ok := r.operandOf("/string"); ok {
		add("fn:string:concat", func() (prog.Term, Ty, bool) {
			other, _ := r.operand()
			return prog.Fn("fn:string:concat", str, other), tyString, true
		})
	}
	if fl, _, ok := r.operandOf("/float64"); ok {
		add("fn:float:plus", func() (prog.Term, Ty, bool) {
			return prog.Fn("fn:float:plus", fl, constTerm(val.F(1.5))), tyFloat, true
		})
	}
	for _, v := range r.live() {
		v := v
		if g.k51 && (v.ty.K == "name" || v.ty.K == "prefix") && !nameStates(v) {
			// (K51) a flowing type that was narrowed to a name type, or a variable that has a union in some
			// inference state: fn:name:* cannot be typed there and the checker drops that state
			g.touch()
			continue
		}
		if v.ty.K == "name" || v.ty.K == "prefix" || v.ty.K == "singleton" && !g.k51 && chance(t, "name-fn-on-singleton", 10) {
			add("fn:name", func() (prog.Term, Ty, bool) {
				fn := pick(t, "namefn", "fn:name:root", "fn:name:tip", "fn:name:to_string")
				if fn == "fn:name:to_string" {
					return prog.Fn(fn, prog.Var(v.name)), tyString, true
				}
				return prog.Fn(fn, prog.Var(v.name)), tyName, true
			})
			break
		}
	}
	if lists := r.plainVars("list"); len(lists) > 0 {
		add("list-fn", func() (prog.Term, Ty, bool) {
			l := r.pickVar("list", lists)
			lt, _ := component(l.ty, "list")
			// element for cons / append
			element := func() (prog.Term, Ty, bool) {
				et := lt.Args[0]
				es := r.varsOfKey(et.key())
				if g.k51 {
					// the element must have exactly the list's element type, else the application is untypable
					if et.K == "union" || et.K == "tagged" || et.K == "any" {
						g.touch()
						return prog.Term{}, Ty{}, false
					}
					if len(es) > 0 {
						return prog.Var(es[0].name), es[0].ty, true
					}
					if et.K == "number" || et.K == "string" || et.K == "float64" {
						return constTerm(genMember(t, et)), et, true
					}
					g.touch()
					return prog.Term{}, Ty{}, false
				}
				e, te := r.operand()
				if len(es) > 0 && rapid.IntRange(0, 3).Draw(t, "same-elem") > 0 {
					e, te = prog.Var(es[0].name), es[0].ty
				} else if chance(t, "list-as-element", 25) {
					e, te = prog.Var(l.name), l.ty
				}
				return e, te, true
			}
			switch rapid.IntRange(0, 3).Draw(t, "listfn") {
			case 0:
				return prog.Fn("fn:list:len", prog.Var(l.name)), tyNumber, true
			case 1:
				return prog.Fn("fn:list:get", prog.Var(l.name), prog.Num(0)), lt.Args[0], true
			case 2:
				e, te, ok := element()
				if !ok {
					return prog.Term{}, Ty{}, false
				}
				return prog.Fn("fn:list:cons", e, prog.Var(l.name)), tyList(joinTy(te, lt.Args[0])), true
			default:
				e, te, ok := element()
				if !ok {
					return prog.Term{}, Ty{}, false
				}
				return prog.Fn("fn:list:append", prog.Var(l.name), e), tyList(joinTy(te, lt.Args[0])), true
			}
		})
	}
	if maps := r.plainVars("map"); len(maps) > 0 {
		add("fn:map:get", func() (prog.Term, Ty, bool) {
			m := r.pickVar("map", maps)
			mt, _ := component(m.ty, "map")
			k, ok := r.keyTerm(mt.Args[0])
			if !ok {
				return prog.Term{}, Ty{}, false
			}
			return prog.Fn("fn:map:get", prog.Var(m.name), k), mt.Args[1], true
		})
	}
	if structs := r.plainVars("struct"); len(structs) > 0 {
		add("fn:struct:get", func() (prog.Term, Ty, bool) {
			s := r.pickVar("struct", structs)
			st, _ := component(s.ty, "struct")
			if len(st.Fields) == 0 {
				return prog.Term{}, Ty{}, false
			}
			f := st.Fields[g.intn("field", len(st.Fields))]
			return prog.Fn("fn:struct:get", prog.Var(s.name), constTerm(val.N(f.Label))), f.T, true
		})
	}
	c := cands[g.intn("construct", len(cands))]
	term, ty, ok := c.mk()
	if ok {
		g.label("construct:" + c.name)
	}
	return term, ty, ok
}

// nameStates: every type the variable can have in one inference state is /name or a name-prefix type, and
// its flowing type was not narrowed on purpose.
func nameStates(v tvar) bool {
	if v.narrowed {
		return false
	}
	for _, c := range cands(v) {
		if c.K != "name" && c.K != "prefix" {
			return false
		}
	}
	return true
}

// keyTerm: a constant member of the key type, or a bound variable of that type.
func (r *ruleGen) keyTerm(kt Ty) (prog.Term, bool) {
	if vs := r.varsOfKey(kt.key()); len(vs) > 0 && rapid.Bool().Draw(r.g.t, "var-key") {
		return prog.Var(vs[r.g.intn("key", len(vs))].name), true
	}
	if kt.K == "any" {
		return constTerm(val.I(1)), true
	}
	return constTerm(genMember(r.g.t, kt)), true
}

func bi(pred string, args ...prog.Term) prog.Lit {
	return prog.PosLit(prog.Atom{Pred: pred, Args: args})
}

// step adds one destructuring / constructing / filtering literal.
func (r *ruleGen) step() {
	g := r.g
	t := g.t
	type cand struct {
		name string
		run  func()
	}
	var cands []cand
	add := func(name string, weight int, run func()) {
		for i := 0; i < weight; i++ {
			cands = append(cands, cand{name, run})
		}
	}
	if vs := r.varsWith("pair"); len(vs) > 0 {
		add(":match_pair", 2, func() {
			v := r.pickVar("pair", vs)
			pt, _ := component(v.ty, "pair")
			a := r.out(pt.Args[0])
			b := r.out(pt.Args[1])
			r.markOpaque(a, b)
			r.body = append(r.body, bi(":match_pair", prog.Var(v.name), a, b))
		})
	}
	if vs := r.varsWith("list"); len(vs) > 0 {
		add(":match_cons", 1, func() {
			v := r.pickVar("list", vs)
			lt, _ := component(v.ty, "list")
			h := r.out(lt.Args[0])
			tl := r.out(lt)
			r.markOpaque(h, tl)
			r.body = append(r.body, bi(":match_cons", prog.Var(v.name), h, tl))
		})
		add(":list:member", 2, func() {
			v := r.pickVar("list", vs)
			lt, _ := component(v.ty, "list")
			e := r.out(lt.Args[0])
			if v.ty.K != "list" && e.IsVar() {
				r.lock(e.Var) // typed by the type variable of the polymorphic relation type
			}
			r.body = append(r.body, bi(":list:member", e, prog.Var(v.name)))
		})
		add(":match_nil", 1, func() {
			v := r.pickVar("list", vs)
			r.body = append(r.body, bi(":match_nil", prog.Var(v.name)))
		})
	}
	if vs := r.varsWith("map"); len(vs) > 0 {
		add(":match_entry", 3, func() {
			v := r.pickVar("map", vs)
			mt, _ := component(v.ty, "map")
			k, _ := r.keyTerm(mt.Args[0])
			val := r.out(mt.Args[1])
			r.body = append(r.body, bi(":match_entry", prog.Var(v.name), k, val))
		})
	}
	var structVars []tvar
	for _, v := range r.live() {
		if stats.Exclusion(exclFieldOfAny) && unionWithAny(v) {
			g.label("n7-touched")
			continue
		}
		if st, ok := component(v.ty, "struct"); ok && len(st.Fields) > 0 {
			structVars = append(structVars, v)
		}
	}
	if len(structVars) > 0 {
		add(":match_field", 3, func() {
			v := r.pickVar("struct", structVars)
			st, _ := component(v.ty, "struct")
			f := st.Fields[g.intn("field", len(st.Fields))]
			ft := f.T
			if f.Label == tagField {
				ft = tyName // the tag: a union of singletons, statically a name
			}
			out := r.out(ft)
			r.body = append(r.body, bi(":match_field", prog.Var(v.name), constTerm(val.N(f.Label)), out))
		})
	}
	if r.self == nil {
		// a recursive rule never constructs: values (and with them the model) would grow without bound
		add("construct", 4, func() {
			if term, ty, ok := r.construct(); ok {
				r.def(term, ty, false)
			}
		})
	}
	if len(r.env) > 0 {
		if lower := r.available(true); len(lower) > 0 {
			add("negated-atom", 3, func() {
				p := lower[g.intn("negpred", len(lower))]
				var args []prog.Term
				for _, col := range p.cols {
					same := r.varsOfKey(col.key())
					switch k := rapid.IntRange(0, 9).Draw(t, "negarg"); {
					case len(same) > 0 && k < 6:
						args = append(args, prog.Var(same[g.intn("v", len(same))].name))
					case k < 8:
						args = append(args, prog.Var(r.env[g.intn("v", len(r.env))].name))
					default:
						// no wildcard: the analysis rejects a negated atom with an unbound position
						args = append(args, constTerm(genMember(t, col)))
					}
				}
				r.body = append(r.body, prog.NegLit(prog.Atom{Pred: p.name, Args: args}))
			})
		}
		add("!=", 2, func() {
			v := r.pickVar("neq", r.env)
			var rhs prog.Term
			if rapid.IntRange(0, 3).Draw(t, "neq-var") == 0 {
				rhs = prog.Var(r.env[g.intn("other", len(r.env))].name)
			} else {
				rhs = constTerm(genMember(t, []Ty{tyNumber, tyString, tyName}[g.intn("kind", 3)]))
			}
			r.body = append(r.body, prog.NeqLit(prog.Var(v.name), rhs))
		})
		if pairs := r.eqPairs(); len(pairs) > 0 {
			weight := 3
			for _, p := range pairs {
				if p.class == "unions-partial-overlap" {
					weight = 20
				}
			}
			add("X=Y", weight, func() { r.equate(pairs) })
		}
		add("=const", 1, func() {
			live := r.live()
			if len(live) == 0 {
				return
			}
			v := r.pickVar("eq", live)
			var c val.V
			if v.ty.isLeaf() && v.ty.K != "any" && !chance(t, "foreign-kind", 12) {
				c = genMember(t, v.ty)
			} else {
				c = genMember(t, []Ty{tyNumber, tyString, tyName}[g.intn("kind", 3)])
			}
			r.body = append(r.body, prog.EqLit(prog.Var(v.name), constTerm(c)))
		})
		if nums := r.varsOfKey("/number"); len(nums) > 0 {
			add("compare", 1, func() {
				v := nums[g.intn("num", len(nums))]
				r.body = append(r.body, prog.CmpLit(pick(t, "op", "<", "<=", ">", ">="), prog.Var(v.name), prog.Num(int64(rapid.IntRange(0, 3).Draw(t, "bound")))))
			})
		}
		var names []tvar
		for _, v := range r.env {
			if nameish(v.ty) {
				names = append(names, v)
			}
		}
		var nameUnions []tvar
		for _, v := range names {
			if v.ty.K == "union" {
				nameUnions = append(nameUnions, v)
			}
		}
		if len(names) > 0 {
			weight := 3
			if len(nameUnions) > 0 {
				weight = 8
			}
			add(":match_prefix", weight, func() {
				v := names[g.intn("name", len(names))]
				if len(nameUnions) > 0 && !chance(t, "other-name", 30) {
					v = nameUnions[g.intn("name-union", len(nameUnions))]
				}
				p := prefixNames[g.intn("prefix", len(prefixNames))]
				negated := rapid.IntRange(0, 2).Draw(t, "negated") == 0 || g.k51 && v.locked
				if v.ty.K == "union" && !negated {
					negated = rapid.Bool().Draw(t, "negated-on-union")
				}
				lit := bi(":match_prefix", prog.Var(v.name), constTerm(val.N(p)))
				if negated {
					lit.K = prog.LNeg
					g.label("negated-match_prefix")
					if v.ty.K == "union" {
						// a prefix strictly below a member of the union is of particular interest: the
						// member must stay (only members BELOW the prefix may be removed)
						var belowMember []string
						for _, a := range v.ty.Args {
							for _, q := range prefixNames {
								if a.K == "prefix" && below(q, a.Name) {
									belowMember = append(belowMember, q)
								}
							}
						}
						if len(belowMember) > 0 && !chance(t, "any-prefix", 40) {
							p = belowMember[g.intn("below-member", len(belowMember))]
							lit = prog.NegLit(prog.Atom{Pred: ":match_prefix", Args: []prog.Term{prog.Var(v.name), constTerm(val.N(p))}})
							g.label("negated-match_prefix-below-member")
						}
						// what is left of the union after removing the alternatives below p; sometimes
						// (one step too narrow, must be rejected) also the alternatives ABOVE p are removed
						overNarrow := chance(t, "over-narrow", 40)
						var rest []Ty
						for _, a := range v.ty.Args {
							gone := a.K == "prefix" && (a.Name == p || below(a.Name, p))
							if overNarrow && (a.K == "name" || a.K == "prefix" && below(p, a.Name)) {
								gone = true
								g.label("negated-match_prefix-over-narrowed")
								r.markNarrowed(v.name)
							}
							if !gone {
								rest = append(rest, a)
							}
						}
						if len(rest) == 1 {
							r.setTy(v.name, rest[0])
						} else if len(rest) > 1 {
							r.setTy(v.name, tyUnion(rest...))
						}
					}
				} else if v.ty.K == "name" || v.ty.K == "any" || v.ty.K == "union" {
					r.setTy(v.name, tyPrefix(p))
				}
				r.body = append(r.body, lit)
			})
		}
	}
	if len(cands) == 0 {
		return
	}
	c := cands[g.intn("step", len(cands))]
	if c.name != "construct" {
		g.label("step:" + c.name)
	}
	c.run()
}

// eqPair is a pair of bound variables that may be equated, with the meet of their flowing types.
type eqPair struct {
	x, y  tvar
	meet  Ty
	known bool   // meet is the harness-side meet (else the flowing types stay as they are)
	class string // identical-types, one-is-any, one-conforms, unions-partial-overlap, leaf-partial-overlap, meet-unknown
}

// eqPairs lists the pairs of distinct bound variables for the step X = Y, preferably bound by different
// literals. The checker types both variables by the meet of their types (inferState.addOrRefine on both
// sides). While K51 is active only pairs whose state types meet exactly (see exactMeet) and whose flowing
// types have a common member are offered.
func (r *ruleGen) eqPairs() []eqPair {
	vs := r.live()
	var different, same []eqPair
	for i := range vs {
		for j := i + 1; j < len(vs); j++ {
			x, y := vs[i], vs[j]
			if x.name == y.name {
				continue
			}
			m, ok := meetTy(x.ty, y.ty)
			if x.origin == y.origin && (len(cands(x)) > 1 || len(cands(y)) > 1) {
				// one atom of a predicate with several bound rows: the checker meets the two columns row by
				// row, the meet of the joined column types says nothing about that
				ok = false
			}
			if r.g.k51 {
				exact := ok
				for _, g := range cands(x) {
					for _, h := range cands(y) {
						exact = exact && exactMeet(g, h)
					}
				}
				if !exact {
					r.g.touch()
					continue
				}
			}
			p := eqPair{x: x, y: y, meet: m, known: ok}
			switch {
			case !ok:
				p.class = "meet-unknown"
			case x.ty.key() == y.ty.key():
				p.class = "identical-types"
			case x.ty.K == "any" || y.ty.K == "any":
				p.class = "one-is-any"
			case sameAlts(m, x.ty) || sameAlts(m, y.ty):
				p.class = "one-conforms"
			case x.ty.K == "union" && y.ty.K == "union":
				p.class = "unions-partial-overlap"
			default:
				p.class = "leaf-partial-overlap"
			}
			if x.origin != y.origin {
				different = append(different, p)
			} else {
				same = append(same, p)
			}
		}
	}
	if len(different) > 0 {
		return different
	}
	return same
}

// equate adds X = Y (either order) for one of the pairs; both variables then have the meet as their
// flowing type. If both were bound by atoms of declared extensional predicates, mostly a pair of base
// facts with a common value (a member of the meet of two of their rows) is pre-loaded.
func (r *ruleGen) equate(pairs []eqPair) {
	g := r.g
	t := g.t
	var partial []eqPair
	for _, p := range pairs {
		if p.class == "unions-partial-overlap" {
			partial = append(partial, p)
		}
	}
	if len(partial) > 0 && !chance(t, "any-pair", 30) {
		pairs = partial
	}
	p := pairs[g.intn("eqpair", len(pairs))]
	a, b := p.x.name, p.y.name
	if rapid.Bool().Draw(t, "flip") {
		a, b = b, a
	}
	r.body = append(r.body, prog.EqLit(prog.Var(a), prog.Var(b)))
	g.label("eqvars:" + p.class)
	var lost *Ty // the alternative of the meet that the flowing type forgets (over-narrowed)
	if p.x.origin != p.y.origin {
		g.label("eqvars:bound-by-different-literals")
	} else {
		g.label("eqvars:bound-by-one-literal")
	}
	if p.known {
		r.setTy(a, p.meet)
		r.setTy(b, p.meet)
		if p.class == "unions-partial-overlap" {
			for _, x := range alternatives(p.x.ty) {
				for _, y := range alternatives(p.y.ty) {
					if x.key() != y.key() && (leafConforms(x, y) || leafConforms(y, x)) && p.meet.K == "union" {
						g.label("eqvars:partial-overlap-alternative-below-alternative")
					}
				}
			}
		}
		// sometimes (one step too narrow, must be rejected) one alternative of the meet is forgotten
		if p.meet.K == "union" && chance(t, "over-narrow", 40) {
			rest := append([]Ty{}, p.meet.Args...)
			i := g.intn("forget", len(rest))
			lost = &p.meet.Args[i]
			rest = append(rest[:i], rest[i+1:]...)
			narrowed := rest[0]
			if len(rest) > 1 {
				narrowed = tyUnion(rest...)
			}
			r.setTy(a, narrowed)
			r.setTy(b, narrowed)
			r.markNarrowed(a)
			r.markNarrowed(b)
			g.label("eqvars:over-narrowed")
		}
	}
	r.equated = append(r.equated, a, b)
	identical := p.known
	for _, gx := range cands(p.x) {
		for _, gy := range cands(p.y) {
			identical = identical && gx.key() == gy.key()
		}
	}
	if !identical {
		// from now on the checker's types of both are results of a meet
		r.lock(a)
		r.lock(b)
	}
	if p.x.src == nil || p.y.src == nil || !chance(t, "common-value", 85) {
		return
	}
	type rowPair struct {
		rx, ry []Ty
		m      Ty
	}
	var rps []rowPair
	for _, rx := range p.x.src.rows {
		for _, ry := range p.y.src.rows {
			m, ok := meetTy(rx[p.x.src.col], ry[p.y.src.col])
			if ok && lost != nil {
				// a value of the forgotten alternative: only such a value can tell
				m, ok = meetTy(m, *lost)
			}
			if ok {
				rps = append(rps, rowPair{rx, ry, m})
			}
		}
	}
	if len(rps) == 0 {
		return
	}
	rp := rps[g.intn("rowpair", len(rps))]
	c := constTerm(genMember(t, rp.m))
	fx := g.memberFact(p.x.src.pred, rp.rx)
	fx.Args[p.x.src.col] = c
	fy := g.memberFact(p.y.src.pred, rp.ry)
	fy.Args[p.y.src.col] = c
	g.extra = append(g.extra, fx, fy)
	g.label("eqvars:common-value-facts")
}

// overlaps: some column of q is a union of leaves that has common members with the union type of a bound
// variable while neither contains the other.
func (r *ruleGen) overlaps(q pinfo) bool {
	if q.noJoin {
		return false
	}
	for _, col := range q.cols {
		for _, v := range r.env {
			if v.ty.K != "union" || col.K != "union" || v.locked {
				continue
			}
			if m, ok := meetTy(v.ty, col); ok && !sameAlts(m, v.ty) && !sameAlts(m, col) {
				return true
			}
		}
	}
	return false
}

// sameAlts: the two types have the same set of alternatives.
func sameAlts(a, b Ty) bool {
	ka := map[string]bool{}
	for _, x := range alternatives(a) {
		ka[x.key()] = true
	}
	n := 0
	for _, y := range alternatives(b) {
		if !ka[y.key()] {
			return false
		}
		n++
	}
	return n >= len(ka)
}

func nameish(ty Ty) bool {
	switch ty.K {
	case "name", "prefix", "singleton", "any":
		return true
	case "union":
		for _, a := range ty.Args {
			if !nameish(a) || a.K == "any" {
				return false
			}
		}
		return true
	}
	return false
}

// gen builds one rule for the head predicate and returns the types flowing into the head columns.
func (r *ruleGen) gen(name string, arity int) (prog.Rule, []Ty) {
	g := r.g
	t := g.t
	preds := r.available(false)
	natoms := []int{1, 1, 2}[g.intn("natoms", 3)]
	if len(g.leafUnions) >= 2 && natoms == 1 && rapid.Bool().Draw(t, "second-atom") {
		natoms = 2 // two columns typed by overlapping unions: something to equate
	}
	if g.hasSub && natoms == 1 && rapid.Bool().Draw(t, "second-atom-subtype") {
		natoms = 2 // a list and a second argument of a comparable type
	}
	for i := 0; i < natoms; i++ {
		p := preds[g.intn("pred", len(preds))]
		overlapping := false
		if i > 0 && rapid.IntRange(0, 9).Draw(t, "overlapping-pred") < 7 {
			// prefer a predicate with a column whose union type overlaps the type of a bound variable
			// without being comparable to it: something for the step X = Y
			var over []pinfo
			for _, q := range preds {
				if r.overlaps(q) {
					over = append(over, q)
				}
			}
			if len(over) > 0 {
				p = over[g.intn("overpred", len(over))]
				overlapping = true
			}
		}
		if g.hasSub && !overlapping && (i > 0 || len(g.leafUnions) < 2) && rapid.Bool().Draw(t, "subtype-pair-pred") {
			// prefer a predicate with a column of the case's (wider, narrower) pair that is not bound yet
			if sub := r.subPreds(preds); len(sub) > 0 {
				p = sub[g.intn("subpred", len(sub))]
			}
		}
		if r.self != nil && i == 0 {
			p = *r.self
		}
		r.body = append(r.body, prog.PosLit(prog.Atom{Pred: p.name, Args: r.atomArgs(p)}))
	}
	nsteps := []int{0, 1, 1, 2, 2, 3}[g.intn("nsteps", 6)]
	// two bound variables typed by unions that overlap without being comparable: mostly equated first
	var partial []eqPair
	for _, p := range r.eqPairs() {
		if p.class == "unions-partial-overlap" {
			partial = append(partial, p)
		}
	}
	if len(partial) > 0 && rapid.IntRange(0, 9).Draw(t, "equate-first") < 7 {
		g.label("step:X=Y")
		r.equate(partial)
		if nsteps > 0 {
			nsteps--
		}
	}
	// a list and a value of a comparable but different element type: mostly combined first
	if r.self == nil {
		if sub := r.subtypePairs(); len(sub) > 0 && rapid.IntRange(0, 9).Draw(t, "subtype-listfn-first") < 7 {
			if term, ty, ok := r.subtypeListFn(sub); ok {
				r.def(term, ty, chance(t, "as-let", 15))
				g.label("construct:list-fn-subtype-args")
			}
		}
	}
	for i := 0; i < nsteps; i++ {
		r.step()
	}
	if r.self == nil && chance(t, "lets", 18) {
		for i := rapid.IntRange(1, 2).Draw(t, "nlets"); i > 0; i-- {
			if term, ty, ok := r.construct(); ok {
				r.def(term, ty, true)
			}
		}
	}
	head := prog.Atom{Pred: name}
	var types []Ty
	for i := 0; i < arity; i++ {
		switch k := pct(t, "headarg"); {
		case k < 82 && len(r.env) > 0:
			// the later a variable was bound, the likelier it is projected
			a := g.intn("hv1", len(r.env))
			if b := g.intn("hv2", len(r.env)); b > a {
				a = b
			}
			if len(r.featured) > 0 && rapid.IntRange(0, 3).Draw(t, "project-featured") > 0 {
				name := r.featured[g.intn("featured", len(r.featured))]
				for i := range r.env {
					if r.env[i].name == name {
						a = i
					}
				}
			} else if len(r.equated) > 0 && rapid.Bool().Draw(t, "project-equated") {
				name := r.equated[g.intn("equated", len(r.equated))]
				for i := range r.env {
					if r.env[i].name == name {
						a = i
					}
				}
			}
			head.Args = append(head.Args, prog.Var(r.env[a].name))
			if r.env[a].opaque && !chance(t, "bound-for-opaque", 25) {
				types = append(types, tyAny)
			} else {
				types = append(types, r.env[a].ty)
			}
		case k < 90 || len(r.env) == 0 || r.self != nil:
			c := genMember(t, []Ty{tyNumber, tyString, tyName}[g.intn("kind", 3)])
			head.Args = append(head.Args, constTerm(c))
			types = append(types, constTy(c))
			g.label("head-const")
		default:
			if term, ty, ok := r.construct(); ok {
				r.last = constructInfo{}
				head.Args = append(head.Args, term)
				types = append(types, ty)
				g.label("head-expression")
			} else {
				head.Args = append(head.Args, prog.Num(0))
				types = append(types, tyNumber)
			}
		}
	}
	return prog.Rule{Head: head, Body: r.body, Let: r.lets}, types
}
