package c11

import (
	"strings"

	"pgregory.net/rapid"
	"verif/val"
)

// Ty is the harness' own tree of a closed first-order type expression. It is used only by the generator
// (to print bounds, to build members and to follow the types that flow through a rule body); the oracle
// never looks at it – membership is judged by the library's run-time check alone.
type Ty struct {
	K      string  // any name number string float64 prefix singleton union pair list map struct tagged
	Name   string  // prefix: the name; singleton: the name constant; tagged: the tag field
	Args   []Ty    // union: alternatives; pair: 2; list: 1; map: key, value
	Fields []Field // struct: fields; tagged: variants (Label = tag, T = struct type of the variant)
	Dot    bool    // print with the .Type<…> syntax instead of fn:Type(…)
}

// Field of a struct type (or variant of a tagged union).
type Field struct {
	Label string
	T     Ty
	Opt   bool
}

var (
	tyAny    = Ty{K: "any"}
	tyName   = Ty{K: "name"}
	tyNumber = Ty{K: "number"}
	tyString = Ty{K: "string"}
	tyFloat  = Ty{K: "float64"}
)

func tyPrefix(n string) Ty        { return Ty{K: "prefix", Name: n} }
func tySingleton(n string) Ty     { return Ty{K: "singleton", Name: n} }
func tyUnion(alts ...Ty) Ty       { return Ty{K: "union", Args: alts} }
func tyPair(a, b Ty) Ty           { return Ty{K: "pair", Args: []Ty{a, b}} }
func tyList(e Ty) Ty              { return Ty{K: "list", Args: []Ty{e}} }
func tyMap(k, v Ty) Ty            { return Ty{K: "map", Args: []Ty{k, v}} }
func tyStruct(fields ...Field) Ty { return Ty{K: "struct", Fields: fields} }

func (t Ty) isLeaf() bool {
	switch t.K {
	case "any", "name", "number", "string", "float64", "prefix", "singleton":
		return true
	}
	return false
}

// Source prints the type expression. Structure only (Dot flags ignored) is given by key().
func (t Ty) Source() string {
	app := func(name string, parts []string) string {
		if t.Dot {
			return "." + name + "<" + strings.Join(parts, ", ") + ">"
		}
		return "fn:" + name + "(" + strings.Join(parts, ", ") + ")"
	}
	switch t.K {
	case "any", "name", "number", "string", "float64":
		return "/" + t.K
	case "prefix":
		return t.Name
	case "singleton":
		return app("Singleton", []string{t.Name})
	case "union":
		return app("Union", sources(t.Args))
	case "pair":
		return app("Pair", sources(t.Args))
	case "list":
		return app("List", sources(t.Args))
	case "map":
		return app("Map", sources(t.Args))
	case "struct":
		var parts []string
		for _, f := range t.Fields {
			switch {
			case t.Dot && f.Opt:
				parts = append(parts, "opt "+f.Label+" : "+f.T.Source())
			case t.Dot:
				parts = append(parts, f.Label+" : "+f.T.Source())
			case f.Opt:
				parts = append(parts, "fn:opt("+f.Label+", "+f.T.Source()+")")
			default:
				parts = append(parts, f.Label, f.T.Source())
			}
		}
		return app("Struct", parts)
	case "tagged":
		parts := []string{t.Name}
		for _, f := range t.Fields {
			if t.Dot {
				parts = append(parts, f.Label+" : "+f.T.Source())
			} else {
				parts = append(parts, f.Label, f.T.Source())
			}
		}
		return app("TaggedUnion", parts)
	}
	panic("c11: unknown type kind " + t.K)
}

func sources(ts []Ty) []string {
	res := make([]string, len(ts))
	for i, t := range ts {
		res[i] = t.Source()
	}
	return res
}

// key identifies the structure of a type (syntax flavour ignored).
func (t Ty) key() string {
	u := t.plain()
	return u.Source()
}

func (t Ty) plain() Ty {
	u := t
	u.Dot = false
	u.Args = nil
	for _, a := range t.Args {
		u.Args = append(u.Args, a.plain())
	}
	u.Fields = nil
	for _, f := range t.Fields {
		u.Fields = append(u.Fields, Field{f.Label, f.T.plain(), f.Opt})
	}
	return u
}

func (t Ty) contains(kind string) bool {
	if t.K == kind {
		return true
	}
	for _, a := range t.Args {
		if a.contains(kind) {
			return true
		}
	}
	for _, f := range t.Fields {
		if f.T.contains(kind) {
			return true
		}
	}
	return false
}

// variantStruct returns the struct type a tagged-union variant stands for: the tag field typed by the
// singleton of the tag, followed by the variant's own fields.
func (t Ty) variantStruct(i int) Ty {
	fields := []Field{{Label: t.Name, T: tySingleton(t.Fields[i].Label)}}
	fields = append(fields, t.Fields[i].T.Fields...)
	return tyStruct(fields...)
}

// ---------------------------------------------------------------------------------------------
// Universe of names. Prefix types share string prefixes on purpose (/foo vs /foobar, K07a).

var prefixNames = []string{"/foo", "/foo/bar", "/foobar", "/a", "/number/n"} // the last one begins like a base type (K72)
var singletonNames = []string{"/a", "/b", "/foo/x", "/true"}
var plainNames = []string{"/c", "/foo", "/a", "/b", "/foo/x", "/foo/bar/y", "/foobar/z", "/a/b", "/true", "/number/n/x"}
var labelPool = []string{"/l1", "/l2", "/l3"}

const tagField = "/kind"

var variantTags = []string{"/va", "/vb"}

// shape is the per-case configuration of the type generator.
type shape struct {
	// fixed map key type / struct label set, used for every map / struct type of the case when the
	// corresponding known-finding exclusion is active.
	mapKey    Ty
	fixKey    bool
	labels    []string
	fixLabels bool
	// with the tagged-union exclusion (a struct type whose tag field is typed /name conforms to every
	// tagged union over that field) no plain struct type and no constructed struct carries the tag
	// field: a case is either a "tagged case" (struct types occur only as variants of tagged unions) or
	// has no tagged union at all.
	fixTagged  bool
	taggedCase bool
}

func genLeaf(t *rapid.T) Ty {
	switch rapid.IntRange(0, 11).Draw(t, "leaf") {
	case 0:
		return tyAny
	case 1, 2:
		return tyName
	case 3, 4, 5:
		return tyNumber
	case 6, 7:
		return tyString
	case 8:
		return tyFloat
	case 9, 10:
		return tyPrefix(rapid.SampledFrom(prefixNames).Draw(t, "prefix"))
	default:
		return Ty{K: "singleton", Name: rapid.SampledFrom(singletonNames).Draw(t, "single"), Dot: rapid.Bool().Draw(t, "dot")}
	}
}

func genKeyTy(t *rapid.T) Ty {
	switch rapid.IntRange(0, 5).Draw(t, "keyty") {
	case 0, 1:
		return tyNumber
	case 2:
		return tyString
	case 3:
		return tyName
	case 4:
		return tyPrefix(rapid.SampledFrom(prefixNames).Draw(t, "prefix"))
	default:
		return tyAny
	}
}

// genTy draws a closed type expression of nesting depth <= depth.
func (s *shape) genTy(t *rapid.T, depth int) Ty {
	if depth <= 0 {
		return genLeaf(t)
	}
	dot := rapid.Bool().Draw(t, "dot")
	switch rapid.IntRange(0, 14).Draw(t, "tykind") {
	case 14:
		// a union of two name types (prefixes on different branches, /name, a singleton): what a negated
		// :match_prefix refines
		pool := []Ty{tyPrefix("/foo"), tyPrefix("/a"), tyPrefix("/foobar"), tyPrefix("/foo/bar"), tyName, {K: "singleton", Name: "/b", Dot: dot}}
		i := rapid.IntRange(0, len(pool)-1).Draw(t, "name1")
		j := rapid.IntRange(0, len(pool)-2).Draw(t, "name2")
		if j >= i {
			j++
		}
		return Ty{K: "union", Args: []Ty{pool[i], pool[j]}, Dot: dot}
	case 0, 1, 2, 3:
		return genLeaf(t)
	case 4, 5:
		a := s.genTy(t, depth-1)
		b := s.genTy(t, depth-1)
		if a.key() == b.key() || a.K == "union" || b.K == "union" || a.K == "tagged" || b.K == "tagged" {
			return a
		}
		return Ty{K: "union", Args: []Ty{a, b}, Dot: dot}
	case 6, 7:
		return Ty{K: "pair", Args: []Ty{s.genTy(t, depth-1), s.genTy(t, depth-1)}, Dot: dot}
	case 8, 9:
		return Ty{K: "list", Args: []Ty{s.genTy(t, depth-1)}, Dot: dot}
	case 10, 11:
		k := s.mapKey
		if !s.fixKey {
			k = genKeyTy(t)
		}
		return Ty{K: "map", Args: []Ty{k, s.genTy(t, depth-1)}, Dot: dot}
	case 12:
		if s.fixTagged && s.taggedCase {
			if depth < 2 {
				return genLeaf(t)
			}
			return s.genTagged(t)
		}
		return s.genStruct(t, depth-1, dot)
	default:
		if s.fixTagged {
			if !s.taggedCase || depth < 2 {
				return genLeaf(t)
			}
			return s.genTagged(t)
		}
		if depth < 2 || (s.fixLabels && !hasLabel(s.labels, tagField)) {
			return s.genStruct(t, depth-1, dot)
		}
		return s.genTagged(t)
	}
}

// genTagged draws a tagged-union type.
func (s *shape) genTagged(t *rapid.T) Ty {
	n := rapid.IntRange(1, 2).Draw(t, "variants")
	res := Ty{K: "tagged", Name: tagField, Dot: rapid.Bool().Draw(t, "dot")}
	for i := 0; i < n; i++ {
		res.Fields = append(res.Fields, Field{Label: variantTags[i], T: s.genVariant(t, rapid.Bool().Draw(t, "vdot"))})
	}
	return res
}

func hasField(ty Ty, label string) bool {
	for _, f := range ty.Fields {
		if f.Label == label {
			return true
		}
	}
	return false
}

func hasLabel(ls []string, l string) bool {
	for _, x := range ls {
		if x == l {
			return true
		}
	}
	return false
}

// genStruct draws a struct type. With fixed labels every struct type of the case has exactly the
// label set s.labels (the tag field, where present, typed /name) and no optional field.
func (s *shape) genStruct(t *rapid.T, depth int, dot bool) Ty {
	res := Ty{K: "struct", Dot: dot}
	if s.fixLabels {
		for _, l := range s.labels {
			ft := s.genTy(t, depth)
			if l == tagField {
				ft = tyName
			}
			res.Fields = append(res.Fields, Field{Label: l, T: ft})
		}
		return res
	}
	n := rapid.IntRange(0, 2).Draw(t, "nfields")
	start := rapid.IntRange(0, 1).Draw(t, "firstlabel")
	for i := 0; i < n; i++ {
		res.Fields = append(res.Fields, Field{Label: labelPool[start+i], T: s.genTy(t, depth), Opt: rapid.IntRange(0, 5).Draw(t, "opt") == 0})
	}
	return res
}

// genVariant draws the struct type of a tagged-union variant (it must not contain the tag field).
func (s *shape) genVariant(t *rapid.T, dot bool) Ty {
	res := Ty{K: "struct", Dot: dot}
	if s.fixLabels {
		for _, l := range s.labels {
			if l != tagField {
				res.Fields = append(res.Fields, Field{Label: l, T: genLeaf(t)})
			}
		}
		return res
	}
	n := rapid.IntRange(0, 2).Draw(t, "nfields")
	for i := 0; i < n; i++ {
		res.Fields = append(res.Fields, Field{Label: labelPool[i], T: genLeaf(t), Opt: rapid.IntRange(0, 7).Draw(t, "opt") == 0})
	}
	return res
}

// ---------------------------------------------------------------------------------------------
// Members by construction.

func pick[T any](t *rapid.T, label string, xs ...T) T { return rapid.SampledFrom(xs).Draw(t, label) }

// genMember draws a constant that is a member of ty by the documented meaning of type expressions
// (an optional struct field is always supplied: the run-time check requires every listed field).
func genMember(t *rapid.T, ty Ty) val.V {
	switch ty.K {
	case "any":
		switch rapid.IntRange(0, 4).Draw(t, "anykind") {
		case 0, 1:
			return val.I(int64(rapid.IntRange(0, 2).Draw(t, "n")))
		case 2:
			return val.S(pick(t, "s", "a", "b"))
		case 3:
			return val.N(pick(t, "name", plainNames...))
		default:
			return val.P(val.I(1), val.S("a"))
		}
	case "name":
		return val.N(pick(t, "name", plainNames...))
	case "number":
		return val.I(int64(rapid.IntRange(0, 3).Draw(t, "n")))
	case "string":
		return val.S(pick(t, "s", "", "a", "b"))
	case "float64":
		return val.F(pick(t, "f", 0.5, 1.0, 2.5))
	case "prefix":
		return val.N(ty.Name + pick(t, "below", "/x", "/y", "/bar/y"))
	case "singleton":
		return val.N(ty.Name)
	case "union":
		return genMember(t, ty.Args[rapid.IntRange(0, len(ty.Args)-1).Draw(t, "alt")])
	case "pair":
		return val.P(genMember(t, ty.Args[0]), genMember(t, ty.Args[1]))
	case "list":
		n := rapid.IntRange(0, 2).Draw(t, "len")
		res := val.V{T: val.List}
		for i := 0; i < n; i++ {
			res.E = append(res.E, genMember(t, ty.Args[0]))
		}
		return res
	case "map":
		n := rapid.IntRange(0, 2).Draw(t, "entries")
		res := val.V{T: val.Map}
		seen := map[string]bool{}
		for i := 0; i < n; i++ {
			k := genMember(t, ty.Args[0])
			if seen[k.Key()] {
				continue
			}
			seen[k.Key()] = true
			res.KV = append(res.KV, [2]val.V{k, genMember(t, ty.Args[1])})
		}
		return res
	case "struct":
		res := val.V{T: val.Struct}
		for _, f := range ty.Fields {
			res.KV = append(res.KV, [2]val.V{val.N(f.Label), genMember(t, f.T)})
		}
		return res
	case "tagged":
		i := rapid.IntRange(0, len(ty.Fields)-1).Draw(t, "variant")
		return genMember(t, ty.variantStruct(i))
	}
	panic("c11: member of unknown type kind " + ty.K)
}

// genForeign draws a constant of a kind that is (almost always) not a member of ty: used for the
// occasional ill-typed fact written in the program text, which bounds checking is expected to reject.
func genForeign(t *rapid.T, ty Ty) val.V {
	cands := []val.V{val.I(7), val.S("zz"), val.N("/zz/q"), val.F(3.5), val.P(val.I(1), val.I(2)), val.L(val.S("q")), {T: val.Struct}}
	return rapid.SampledFrom(cands).Draw(t, "foreign")
}

// ---------------------------------------------------------------------------------------------
// One-step changes of a type (narrow, widen, look-alike): the source of declared head bounds that are
// slightly off the types flowing through a rule.

func (s *shape) mutateTy(t *rapid.T, ty Ty) Ty {
	dot := rapid.Bool().Draw(t, "mdot")
	// change a child of a constructed type
	if !ty.isLeaf() && rapid.IntRange(0, 3).Draw(t, "descend") > 0 {
		switch ty.K {
		case "union":
			if rapid.Bool().Draw(t, "dropalt") {
				return ty.Args[rapid.IntRange(0, len(ty.Args)-1).Draw(t, "keep")]
			}
			fallthrough
		case "pair", "list":
			res := ty
			res.Args = append([]Ty{}, ty.Args...)
			i := rapid.IntRange(0, len(ty.Args)-1).Draw(t, "child")
			res.Args[i] = s.mutateTy(t, ty.Args[i])
			return res
		case "map":
			res := ty
			res.Args = append([]Ty{}, ty.Args...)
			i := 1
			if !s.fixKey && rapid.Bool().Draw(t, "key") {
				i = 0
			}
			res.Args[i] = s.mutateTy(t, ty.Args[i])
			return res
		case "struct":
			res := ty
			res.Fields = append([]Field{}, ty.Fields...)
			if !s.fixTagged && hasField(ty, tagField) && rapid.Bool().Draw(t, "to-tagged") {
				// narrow a struct that carries the tag field to a tagged union with one variant
				variant := Ty{K: "struct", Dot: ty.Dot}
				for _, f := range ty.Fields {
					if f.Label != tagField {
						variant.Fields = append(variant.Fields, f)
					}
				}
				return Ty{K: "tagged", Name: tagField, Dot: dot, Fields: []Field{{Label: variantTags[0], T: variant}}}
			}
			if !s.fixLabels {
				switch rapid.IntRange(0, 3).Draw(t, "width") {
				case 0:
					if len(res.Fields) > 0 {
						i := rapid.IntRange(0, len(res.Fields)-1).Draw(t, "drop")
						res.Fields = append(res.Fields[:i:i], res.Fields[i+1:]...)
						return res
					}
				case 1:
					for _, l := range labelPool {
						used := false
						for _, f := range res.Fields {
							used = used || f.Label == l
						}
						if !used {
							res.Fields = append(res.Fields, Field{Label: l, T: genLeaf(t), Opt: rapid.Bool().Draw(t, "opt")})
							return res
						}
					}
				case 2:
					if len(res.Fields) > 0 {
						i := rapid.IntRange(0, len(res.Fields)-1).Draw(t, "flip")
						res.Fields[i].Opt = !res.Fields[i].Opt
						return res
					}
				}
			}
			if len(res.Fields) > 0 {
				i := rapid.IntRange(0, len(res.Fields)-1).Draw(t, "field")
				if res.Fields[i].Label != tagField {
					res.Fields[i].T = s.mutateTy(t, res.Fields[i].T)
				}
			}
			return res
		case "tagged":
			res := ty
			res.Fields = append([]Field{}, ty.Fields...)
			if len(res.Fields) > 1 && rapid.Bool().Draw(t, "dropvariant") {
				return Ty{K: "tagged", Name: ty.Name, Fields: res.Fields[:1], Dot: ty.Dot}
			}
			i := rapid.IntRange(0, len(res.Fields)-1).Draw(t, "variant")
			v := res.Fields[i].T
			v.Fields = append([]Field{}, v.Fields...)
			if len(v.Fields) > 0 {
				j := rapid.IntRange(0, len(v.Fields)-1).Draw(t, "field")
				v.Fields[j].T = s.mutateTy(t, v.Fields[j].T)
			}
			res.Fields[i].T = v
			return res
		}
	}
	var cands []Ty
	switch ty.K {
	case "any":
		cands = []Ty{tyNumber, tyString, tyName}
	case "name":
		cands = []Ty{tyAny, tyNumber, tyString, tyPrefix("/foo"), tyPrefix("/a"), {K: "singleton", Name: "/a", Dot: dot}}
	case "number":
		cands = []Ty{tyAny, tyName, tyString, tyFloat, {K: "union", Args: []Ty{tyNumber, tyString}, Dot: dot}}
	case "string":
		cands = []Ty{tyAny, tyName, tyNumber, {K: "union", Args: []Ty{tyNumber, tyString}, Dot: dot}}
	case "float64":
		cands = []Ty{tyAny, tyNumber, tyName}
	case "prefix":
		cands = []Ty{tyName, tyAny, {K: "singleton", Name: ty.Name + "/x", Dot: dot}}
		for _, p := range prefixNames {
			if p != ty.Name {
				cands = append(cands, tyPrefix(p))
			}
		}
	case "singleton":
		cands = []Ty{tyName, tyAny, {K: "singleton", Name: "/b", Dot: dot}, tyPrefix("/foo"), tyPrefix("/a")}
	case "list":
		cands = []Ty{ty.Args[0], tyAny, {K: "pair", Args: []Ty{ty.Args[0], ty}, Dot: dot}}
	case "pair":
		cands = []Ty{{K: "pair", Args: []Ty{ty.Args[1], ty.Args[0]}, Dot: dot}, tyAny, ty.Args[0], {K: "list", Args: []Ty{ty.Args[0]}, Dot: dot}}
	case "map":
		cands = []Ty{tyAny, {K: "list", Args: []Ty{ty.Args[1]}, Dot: dot}}
		if !s.fixKey {
			cands = append(cands, Ty{K: "map", Args: []Ty{ty.Args[1], ty.Args[0]}, Dot: dot})
		}
	case "union":
		cands = []Ty{tyAny, ty.Args[0], ty.Args[len(ty.Args)-1]}
	default:
		cands = []Ty{tyAny}
	}
	return rapid.SampledFrom(cands).Draw(t, "mutant")
}

// joinTy is the harness-side union of two flowing types (equal types stay as they are).
func joinTy(a, b Ty) Ty {
	if a.key() == b.key() {
		return a
	}
	var alts []Ty
	seen := map[string]bool{}
	add := func(x Ty) {
		if !seen[x.key()] {
			seen[x.key()] = true
			alts = append(alts, x)
		}
	}
	for _, x := range []Ty{a, b} {
		switch x.K {
		case "union":
			for _, y := range x.Args {
				add(y)
			}
		case "tagged":
			for i := range x.Fields {
				add(x.variantStruct(i))
			}
		default:
			add(x)
		}
	}
	for _, x := range alts {
		if x.K == "any" {
			return tyAny
		}
	}
	return Ty{K: "union", Args: alts}
}

// ---------------------------------------------------------------------------------------------
// Model of the checker's meet (symbols.LowerBound) used by the exclusion K51-meet-underapproximates: the
// checker judges a premise infeasible – and silently drops the type alternative – whenever the two types
// that meet are incomparable by SetConforms, even if they have members in common. While K51 is a known
// finding, two types may meet at a variable only if they are equal, comparable, or certainly disjoint.

// alternatives flattens the top level of a type: union members, variants of a tagged union.
func alternatives(ty Ty) []Ty {
	switch ty.K {
	case "union":
		var res []Ty
		for _, a := range ty.Args {
			res = append(res, alternatives(a)...)
		}
		return res
	case "tagged":
		var res []Ty
		for i := range ty.Fields {
			res = append(res, ty.variantStruct(i))
		}
		return res
	}
	return []Ty{ty}
}

// stateCandidates over-approximates the types a variable of flowing type ty can have in one inference
// state of the checker when the row structure behind it is not known: every union of a non-empty subset
// of its alternatives.
func stateCandidates(ty Ty) []Ty {
	alts := alternatives(ty)
	if len(alts) == 1 {
		return []Ty{ty}
	}
	if len(alts) > 5 {
		alts = alts[:5]
	}
	res := []Ty{ty}
	for mask := 1; mask < 1<<len(alts); mask++ {
		var sub []Ty
		for i, a := range alts {
			if mask&(1<<i) != 0 {
				sub = append(sub, a)
			}
		}
		if len(sub) == 1 {
			res = append(res, sub[0])
		} else {
			res = append(res, tyUnion(sub...))
		}
	}
	return res
}

func nameKind(ty Ty) bool { return ty.K == "name" || ty.K == "prefix" || ty.K == "singleton" }

func below(name, prefix string) bool {
	return len(name) > len(prefix) && name[:len(prefix)+1] == prefix+"/"
}

// leafConforms models SetConforms on two leaf types (both not /any).
func leafConforms(a, b Ty) bool {
	if a.key() == b.key() {
		return true
	}
	switch {
	case a.K == "prefix" && b.K == "name", a.K == "singleton" && b.K == "name":
		return true
	case a.K == "prefix" && b.K == "prefix", a.K == "singleton" && b.K == "prefix":
		return below(a.Name, b.Name)
	}
	return false
}

// certainlyDisjoint is true only if the two types have no member in common.
func certainlyDisjoint(a, b Ty) bool {
	if a.K == "any" || b.K == "any" {
		return false
	}
	if a.K == "union" || a.K == "tagged" || b.K == "union" || b.K == "tagged" {
		for _, x := range alternatives(a) {
			for _, y := range alternatives(b) {
				if !certainlyDisjoint(x, y) {
					return false
				}
			}
		}
		return true
	}
	shape := func(t Ty) string {
		if nameKind(t) {
			return "name"
		}
		return t.K
	}
	if shape(a) != shape(b) {
		return true
	}
	switch shape(a) {
	case "name":
		return !leafConforms(a, b) && !leafConforms(b, a)
	case "pair":
		return certainlyDisjoint(a.Args[0], b.Args[0]) || certainlyDisjoint(a.Args[1], b.Args[1])
	case "struct":
		// membership needs exactly the listed fields (optional ones included)
		if len(a.Fields) != len(b.Fields) {
			return true
		}
		for _, fa := range a.Fields {
			found := false
			for _, fb := range b.Fields {
				if fa.Label == fb.Label {
					found = true
					if certainlyDisjoint(fa.T, fb.T) {
						return true
					}
				}
			}
			if !found {
				return true
			}
		}
		return false
	}
	return false // equal base types; lists and maps share their empty value
}

func leafOnly(ty Ty) bool {
	for _, a := range alternatives(ty) {
		if !a.isLeaf() || a.K == "any" {
			return false
		}
	}
	return ty.K != "tagged"
}

// meetSafe tells whether the checker's verdict on the meet of two state types is reliable: the types are
// equal, one is /any, they are certainly disjoint, or – for types built from leaves only, where the
// conformance rules are modelled exactly – one conforms to the other.
func meetSafe(g, h Ty) bool {
	if g.key() == h.key() || g.K == "any" || h.K == "any" || certainlyDisjoint(g, h) {
		return true
	}
	if !leafOnly(g) || !leafOnly(h) {
		return false // structured types: the model does not try to predict the conformance verdict
	}
	conf := func(x, y Ty) bool { // SetConforms: every alternative on the left conforms to some alternative on the right
		for _, a := range alternatives(x) {
			ok := false
			for _, b := range alternatives(y) {
				ok = ok || leafConforms(a, b)
			}
			if !ok {
				return false
			}
		}
		return true
	}
	return conf(g, h) || conf(h, g)
}

// ---------------------------------------------------------------------------------------------
// Unions of leaf types that share alternatives, and the meet of two flowing types (for the step X = Y).

var unionLeafPool = []Ty{tyName, tyPrefix("/foo"), tyString, tyNumber, tyPrefix("/foo/bar"), tyPrefix("/a"),
	tyString, tyNumber, tyFloat, tySingleton("/b"), tyPrefix("/foobar"), tyName}

// neighbours lists the name types one step above and below a name type.
func neighbours(a Ty) []Ty {
	switch {
	case a.K == "name":
		return []Ty{tyPrefix("/foo"), tyPrefix("/a"), tySingleton("/b")}
	case a.K == "prefix" && a.Name == "/foo":
		return []Ty{tyName, tyPrefix("/foo/bar"), tySingleton("/foo/x")}
	case a.K == "prefix" && a.Name == "/foo/bar":
		return []Ty{tyPrefix("/foo"), tyName}
	case a.K == "prefix":
		return []Ty{tyName}
	case a.K == "singleton":
		res := []Ty{tyName}
		if i := strings.LastIndex(a.Name, "/"); i > 0 {
			res = append(res, tyPrefix(a.Name[:i]))
		}
		return res
	}
	return nil
}

// genLeafUnion draws a union of two or three distinct leaf types. If earlier unions of the case are given
// it is mostly derived from one of them: some of its alternatives are kept, one may move a step up or
// down the name hierarchy (/name - /foo - /foo/bar, a singleton), the rest is drawn from a small pool, so
// that the unions of a case overlap without being comparable.
func genLeafUnion(t *rapid.T, earlier []Ty) Ty {
	var alts []Ty
	seen := map[string]bool{}
	add := func(x Ty) {
		if !seen[x.key()] && len(alts) < 3 {
			seen[x.key()] = true
			alts = append(alts, x)
		}
	}
	if len(earlier) > 0 && rapid.IntRange(0, 3).Draw(t, "related-union") > 0 {
		p := earlier[rapid.IntRange(0, len(earlier)-1).Draw(t, "like")]
		var named []int // alternatives with a neighbour in the name hierarchy
		for i, a := range p.Args {
			if len(neighbours(a)) > 0 {
				named = append(named, i)
			}
		}
		if len(named) > 0 && rapid.Bool().Draw(t, "name-step") {
			// one alternative moves a step up or down the name hierarchy, another one stays
			i := named[rapid.IntRange(0, len(named)-1).Draw(t, "moved")]
			ns := neighbours(p.Args[i])
			j := rapid.IntRange(0, len(p.Args)-2).Draw(t, "stays")
			if j >= i {
				j++
			}
			add(p.Args[j])
			add(ns[rapid.IntRange(0, len(ns)-1).Draw(t, "neighbour")])
		} else {
			// a proper part of the alternatives stays
			mask := rapid.IntRange(1, 1<<len(p.Args)-2).Draw(t, "keep")
			for i, a := range p.Args {
				if mask&(1<<i) != 0 {
					add(a)
				}
			}
		}
	}
	n := rapid.IntRange(2, 3).Draw(t, "nalts")
	for i := rapid.IntRange(0, len(unionLeafPool)-1).Draw(t, "pool"); len(alts) < n; i++ {
		add(unionLeafPool[i%len(unionLeafPool)])
	}
	rot := rapid.IntRange(0, len(alts)-1).Draw(t, "rotate")
	alts = append(append([]Ty{}, alts[rot:]...), alts[:rot]...)
	return tyUnion(alts...)
}

// meetTy gives the type whose members are the common members of a and b, by the documented meaning of the
// type expressions, where that is obvious: equal types, /any on one side, and types whose alternatives
// are leaves (two leaves with a common member are comparable, so the meet is the union of the smaller one
// of every comparable pair of alternatives). ok=false if it is not obvious or the meet has no member.
func meetTy(a, b Ty) (Ty, bool) {
	switch {
	case a.key() == b.key():
		return a, true
	case a.K == "any":
		return b, true
	case b.K == "any":
		return a, true
	case !leafOnly(a) || !leafOnly(b):
		return Ty{}, false
	}
	var alts []Ty
	seen := map[string]bool{}
	add := func(x Ty) {
		if !seen[x.key()] {
			seen[x.key()] = true
			alts = append(alts, x)
		}
	}
	for _, x := range alternatives(a) {
		for _, y := range alternatives(b) {
			if leafConforms(x, y) {
				add(x)
			} else if leafConforms(y, x) {
				add(y)
			}
		}
	}
	// an alternative below another one adds nothing
	var res []Ty
	for i, x := range alts {
		subsumed := false
		for j, y := range alts {
			subsumed = subsumed || i != j && leafConforms(x, y)
		}
		if !subsumed {
			res = append(res, x)
		}
	}
	switch len(res) {
	case 0:
		return Ty{}, false
	case 1:
		return res[0], true
	}
	return tyUnion(res...), true
}

// exactMeet (K51): the checker's meet of two state types is known to be the set of common members: equal
// types, /any on one side, or alternatives that are all leaves (symbols.LowerBound goes through the
// alternatives of both unions; only structured alternatives that overlap without being comparable are lost).
func exactMeet(g, h Ty) bool {
	return g.key() == h.key() || g.K == "any" || h.K == "any" || leafOnly(g) && leafOnly(h)
}
