#!/bin/sh
# Builds (and thereby caches) every property package from files on disk only.
set -e
cd "$(dirname "$0")/harness"
export GOFLAGS=-mod=mod GOPROXY=off
unset GOTOOLCHAIN GOSUMDB
go build ./...
go vet ./stats/ >/dev/null 2>&1 || true
for d in props/*/; do
  race=""
  case "$d" in props/c18/) race="-race";; esac
  go test -c $race -tags verif -o /dev/null "./$d" || exit 1
done
echo setup ok
