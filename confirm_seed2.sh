#!/bin/bash
# confirm_seed2.sh <seed-dir> : re-verifies a seeded change (dir holds patch.diff [patch.rebased.diff], demo/, meta.json)
# against /repo's current HEAD in a scratch worktree: patch applies, tree builds, the whole existing suite passes,
# the demo fails with the change and passes without. One result line on stdout. Scratch is removed afterwards.
D=$(realpath "$1"); S=$(basename "$D"); W=/tmp/cs2-$S
export GOFLAGS= GOPROXY=off
unset GOTOOLCHAIN GOSUMDB
P=$D/patch.diff; [ -f $D/patch.rebased.diff ] && P=$D/patch.rebased.diff
git -C /repo worktree remove --force $W/repo >/dev/null 2>&1; rm -rf $W; mkdir -p $W
git -C /repo worktree add -q --detach $W/repo HEAD || { echo "$S worktree-failed"; exit 1; }
res="$S"
( cd $W/repo && git apply $P ) || { echo "$res patch-does-not-apply"; git -C /repo worktree remove --force $W/repo; rm -rf $W; exit 1; }
( cd $W/repo && go build ./... ) >/dev/null 2>&1 && res="$res build=ok" || res="$res build=FAIL"
suite=$(cd $W/repo && go test -vet=off -count=1 ./... 2>&1 | grep -v "no test files" | grep -vc "^ok")
res="$res suite_not_ok=$suite"
cp -r $D/demo $W/demo
rundemo() {
  if [ -f $W/demo/go.mod ]; then
    ( cd $W/demo && go mod edit -replace codeberg.org/TauCeti/mangle-go=$W/repo && cp $W/repo/go.sum . && GOFLAGS=-mod=mod go test -count=1 ./... ) >$W/demo.$1.log 2>&1
  else
    pkg=$(grep -m1 '^+++ b/' $P | sed 's#+++ b/##; s#/[^/]*$##')
    cp $W/demo/*_test.go $W/repo/$pkg/ 2>/dev/null
    ( cd $W/repo && go test -vet=off -count=1 ./$pkg/ ) >$W/demo.$1.log 2>&1
  fi
}
rundemo with; rc1=$?
mkdir -p /verif/out/confirm; cp $W/demo.with.log /verif/out/confirm/$S.with.log
( cd $W/repo && git checkout -q -- . )
rundemo without; rc2=$?
cp $W/demo.without.log /verif/out/confirm/$S.without.log
res="$res demo_with_change_rc=$rc1 demo_without_rc=$rc2"
git -C /repo worktree remove --force $W/repo; rm -rf $W; git -C /repo worktree prune
echo "$res"
