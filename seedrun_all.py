#!/usr/bin/env python3
"""Runs every seeded change in /verif/seeded against its property's quick check (and, with --cross, against the
listed related checks), records the outcome in seeded/<id>/meta.json (detection) and prints a markdown table.
usage: seedrun_all.py [--seeds 1,2] [--only C06-1,...]"""
import json, os, subprocess, sys, glob, re
seeds = [1]
only = None
args = sys.argv[1:]
for i, a in enumerate(args):
    if a == '--seeds': seeds = [int(x) for x in args[i+1].split(',')]
    if a == '--only': only = set(args[i+1].split(','))
CROSS = {'C14-1': ['C13'], 'C05-2': ['C13', 'C14'], 'C05-1': ['C14'], 'C15-2': ['C02'], 'C10-2': ['C12']}
rows = []
for d in sorted(glob.glob('/verif/seeded/C*-*')):
    sid = os.path.basename(d)
    if only and sid not in only:
        continue
    prop = sid.split('-')[0]
    meta = json.load(open(d + '/meta.json'))
    det = meta.get('detection', {})
    for check in [prop] + CROSS.get(sid, []):
        if not os.path.exists('/verif/checks.d/%s.json' % check):
            det[check] = {'result': 'no check yet'}
            continue
        outcomes = []
        first = ''
        for s in seeds:
            p = subprocess.run(['/verif/seedtest.sh', d + '/patch.diff', check, 'quick', str(s)], capture_output=True, text=True)
            line = p.stdout.strip().splitlines()[-1] if p.stdout.strip() else 'ERROR ' + p.stderr[-200:]
            outcomes.append(line.split()[0])
            if line.startswith('CAUGHT') and not first:
                first = line.split(': ', 1)[1][:300] if ': ' in line else ''
        det[check] = {'tier': 'quick', 'seeds': seeds, 'outcomes': outcomes, 'first_violation': first}
    meta['detection'] = det
    json.dump(meta, open(d + '/meta.json', 'w'), indent=1)
    rows.append((sid, meta.get('title') or meta.get('what_changed', '')[:80], det))
    print(sid, {k: v.get('outcomes', v.get('result')) for k, v in det.items()}, flush=True)
