#!/usr/bin/env python3
"""Regenerates MANIFEST.json from checks.json (single source of truth for the registered checks)."""
import json, os
ROOT = os.path.dirname(os.path.abspath(__file__))
import glob
cfg = {}
for path in sorted(glob.glob(os.path.join(ROOT, "checks.d", "*.json"))):
    cfg.update(json.load(open(path)))
props = [json.loads(l) for l in open(os.path.join(ROOT, "properties.jsonl"))]
checks, na = [], []
for p in props:
    pid = p["id"]
    c = cfg.get(pid)
    if not c or c.get("unclaimed"):
        na.append({"property_id": pid, "reason": (c or {}).get("unclaimed", "check under construction in this session; not yet registered")})
        continue
    checks.append({
        "property_id": pid,
        "quick_cmd": "./check %s --tier quick" % pid,
        "thorough_cmd": "./check %s --tier thorough" % pid,
        "evidence_file": "/verif/evidence/%s.json" % pid,
        "replay_cmd_template": "./check %s --replay {path}" % pid,
        "engine": "harness",
        "level_claimed": {"category": "exploration", "text": c["level_text"], "design_ref": "DESIGN.md §3 " + pid},
        "level_note": c["level_note"],
        "technique": c["technique"],
    })
m = {
    "version": 1,
    "setup_cmd": "./setup.sh",
    "hooks": {
        "guard": "verif",
        "enable": "go test -tags verif (harness module /verif/harness replaces codeberg.org/TauCeti/mangle-go with /repo); no hook is present in /repo at the moment, the tag is reserved",
        "baseline_off_cmd": "cd /repo && go test -vet=off -count=1 ./...",
        "source_commits": [],
        "add_only": True,
    },
    "engines": [{"name": "harness", "path": "/verif/harness", "serves_properties": [c["property_id"] for c in checks],
                 "kind_free_text": "Go test binaries: pgregory.net/rapid generators + explicit oracles (reference models, round trips, differential and metamorphic relations), native go fuzzing for C10, porcupine + race detector for C18; driver /verif/check"}],
    "checks": checks,
    "not_applicable": na,
    "notes": "All checks are property-based tests/fuzzing (exploration level). Fixes of genuine defects are unguarded 'fix:' commits in /repo, listed in known_findings.json.",
}
json.dump(m, open(os.path.join(ROOT, "MANIFEST.json"), "w"), indent=1)
print("claimed:", [c["property_id"] for c in checks])
