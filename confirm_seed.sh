#!/bin/bash
# confirm_seed.sh <PROP> <N>: re-verifies a seeded change delivered under /tmp/seed-<PROP>/out/<PROP>-<N>:
# scratch worktree at /tmp/seed-<PROP>/repo (the demos' go.mod point there), patch applies, tree builds,
# the whole existing suite passes, the demo fails with the change and passes without. Result -> stdout.
P=$1; N=$2; D=/tmp/seed-$P/out/$P-$N; W=/tmp/seed-$P/repo-$N
export GOFLAGS= GOPROXY=off
rm -rf $W; git -C /repo worktree prune; git -C /repo worktree add -q --detach $W HEAD || { echo "$P-$N worktree-failed"; exit 1; }
res="$P-$N"
( cd $W && git apply $D/patch.diff ) || { echo "$res patch-does-not-apply"; git -C /repo worktree remove --force $W; exit 1; }
( cd $W && go build ./... ) >/dev/null 2>&1 && res="$res build=ok" || res="$res build=FAIL"
suite=$(cd $W && go test -vet=off -count=1 ./... 2>&1 | grep -v "no test files" | grep -vc "^ok")
res="$res suite_not_ok=$suite"
# demo: go.mod replace points to /tmp/seed-P/repo -> repoint to $W
demo=$D/demo
rm -rf /tmp/seed-$P/demo-run-$N; cp -r $demo /tmp/seed-$P/demo-run-$N
rundemo() {
  if [ -f /tmp/seed-$P/demo-run-$N/go.mod ]; then
    ( cd /tmp/seed-$P/demo-run-$N && go mod edit -replace codeberg.org/TauCeti/mangle-go=$W && cp $W/go.sum . && GOFLAGS=-mod=mod go test -count=1 ./... ) >/tmp/seed-$P/demo-$N.$1.log 2>&1
  else
    # test files meant to live inside the worktree package: find RUN.md hint is manual; try copying *_test.go next to the patched file's package
    pkg=$(grep -m1 '^+++ b/' $D/patch.diff | sed 's#+++ b/##; s#/[^/]*$##')
    cp /tmp/seed-$P/demo-run-$N/*_test.go $W/$pkg/ 2>/dev/null
    ( cd $W && go test -vet=off -count=1 ./$pkg/ ) >/tmp/seed-$P/demo-$N.$1.log 2>&1
  fi
}
rundemo with; rc1=$?
( cd $W && git checkout -q -- . )
rundemo without; rc2=$?
res="$res demo_with_change_rc=$rc1 demo_without_rc=$rc2"
git -C /repo worktree remove --force $W; rm -rf /tmp/seed-$P/demo-run-$N
echo "$res"
