#!/usr/bin/env python3
"""Refreshes the generated tables of DESIGN.md (between <!-- BEGIN x --> / <!-- END x --> markers):
   findings-table  from known_findings.json
   seed-table      from seeded/*/meta.json (detection as recorded by seedpar.py)"""
import glob, json, os, re

ROOT = os.path.dirname(os.path.abspath(__file__))

def findings():
    d = json.load(open(os.path.join(ROOT, 'known_findings.json')))
    out = ['| id | status | properties | commit / exclusion | what failed |', '|----|--------|------------|--------------------|-------------|']
    for e in d['findings']:
        ce = e.get('commit', '') if e['status'] == 'fixed' else 'exclusion `%s`' % e.get('exclusion', '')
        out.append('| %s | %s | %s | %s | %s |' % (e['id'], e['status'], ' '.join(e['property']), ce, e['what'].replace('|', '\\|').replace('\n', ' ')))
    return '\n'.join(out)

def seeds():
    out = ['| seed | change (files) | needs to manifest | own check (quick, seeds) | other checks |', '|------|----------------|-------------------|--------------------------|--------------|']
    caught_own = total = 0
    caught_any = 0
    for mp in sorted(glob.glob(os.path.join(ROOT, 'seeded', 'C*-*', 'meta.json'))):
        m = json.load(open(mp))
        sid = m.get('seed_id') or os.path.basename(os.path.dirname(mp))
        prop = sid.split('-')[0]
        det = m.get('detection') or {}
        title = (m.get('title') or m.get('what_changed', ''))[:170].replace('|', '\\|').replace('\n', ' ')
        needs = (m.get('needs_to_manifest') or '')[:200].replace('|', '\\|').replace('\n', ' ')
        files = ', '.join(m.get('files') or [])
        def cell(c):
            d = det.get(c)
            if not d:
                return 'not run'
            oc = d.get('outcomes') or []
            return '%s %d/%d' % (c, sum(1 for o in oc if o == 'CAUGHT'), len(oc)) + ('' if all(o in ('CAUGHT', 'MISSED') for o in oc) else ' (' + ','.join(sorted(set(oc) - {'CAUGHT', 'MISSED'})) + ')')
        own = cell(prop)
        others = '; '.join(cell(c) for c in sorted(det) if c != prop)
        neutral = (m.get('status_at_head') or {}).get('neutralised')
        if neutral:
            own = 'n/a - no longer breaks the property at HEAD (see meta.json)'
        else:
            total += 1
            o = (det.get(prop) or {}).get('outcomes') or []
            if 'CAUGHT' in o:
                caught_own += 1
            if any('CAUGHT' in ((det.get(c) or {}).get('outcomes') or []) for c in det):
                caught_any += 1
        out.append('| %s | %s (%s) | %s | %s | %s |' % (sid, title, files, needs, own, others))
    out.append('')
    out.append('Totals (changes that still break their property at HEAD): %d; caught by the quick tier of their own property\'s check at one or more of the seeds run: %d; caught by some check: %d.' % (total, caught_own, caught_any))
    return '\n'.join(out)

p = os.path.join(ROOT, 'DESIGN.md')
s = open(p).read()
for name, fn in (('findings-table', findings), ('seed-table', seeds)):
    pat = re.compile(r'(<!-- BEGIN %s -->\n).*?(<!-- END %s -->)' % (name, name), re.S)
    if pat.search(s):
        s = pat.sub(lambda m: m.group(1) + fn() + '\n' + m.group(2), s)
    else:
        print('marker %s not found' % name)
open(p, 'w').write(s)
