#!/usr/bin/env python3
"""Prints the findings register (known_findings.json) as a markdown table for DESIGN.md §9."""
import json
d = json.load(open('/verif/known_findings.json'))
print('| id | status | properties | commit / exclusion | what failed |')
print('|----|--------|------------|--------------------|-------------|')
for e in d['findings']:
    ce = e.get('commit', '') if e['status'] == 'fixed' else 'exclusion `%s`' % e.get('exclusion', '')
    print('| %s | %s | %s | %s | %s |' % (e['id'], e['status'], ' '.join(e['property']), ce, e['what'].replace('|', '\\|').replace('\n', ' ')))
