#!/bin/sh
# seedtest.sh <patch.diff> <PROPERTY> [tier] [seed]
# Applies a seeded change to /repo, runs the property's check, and restores /repo.
# Prints CAUGHT / MISSED / BROKEN(exit 2) and leaves the check output in out/seedtest/<name>.log
patch="$1"; prop="$2"; tier="${3:-quick}"; seed="${4:-1}"
cd /verif || exit 3
if [ -n "$(git -C /repo status --porcelain)" ]; then echo "seedtest: /repo is not clean"; exit 3; fi
name=$(echo "$patch" | tr '/' '_')
mkdir -p out/seedtest
if ! git -C /repo apply "$patch"; then echo "seedtest: patch does not apply"; exit 3; fi
./check "$prop" --tier "$tier" --seed "$seed" > "out/seedtest/$name.$prop.log" 2>&1
rc=$?
git -C /repo checkout -- . ; git -C /repo clean -fdq
case $rc in
 1) echo "CAUGHT $prop $patch: $(grep -m1 '^violation' out/seedtest/$name.$prop.log | cut -c1-300)";;
 0) echo "MISSED $prop $patch";;
 *) echo "BROKEN($rc) $prop $patch: $(tail -2 out/seedtest/$name.$prop.log | head -1 | cut -c1-200)";;
esac
