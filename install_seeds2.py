#!/usr/bin/env python3
"""install_seeds2.py <tag> [-j N] [--only C06-3,...]: confirms (confirm_seed2.sh: scratch worktree of /repo HEAD, patch applies,
builds, whole suite passes, demo fails with and passes without the change) every seeded change delivered under
/tmp/<tag>-C*/out/C*-* that is not installed yet and copies the confirmed ones to /verif/seeded/<id>/."""
import concurrent.futures as cf, glob, json, os, shutil, subprocess, sys
tag = sys.argv[1]
jobs = int(sys.argv[sys.argv.index('-j') + 1]) if '-j' in sys.argv else 4
only = set(sys.argv[sys.argv.index('--only') + 1].split(',')) if '--only' in sys.argv else None
todo = []
for d in sorted(glob.glob('/tmp/%s-C*/out/C*-*' % tag)):
    sid = os.path.basename(d)
    if only and sid not in only:
        continue
    if os.path.exists('/verif/seeded/%s/meta.json' % sid):
        continue
    if not (os.path.exists(d + '/patch.diff') and os.path.isdir(d + '/demo')):
        print('INCOMPLETE', sid)
        continue
    todo.append(d)

def confirm(d):
    p = subprocess.run(['/verif/confirm_seed2.sh', d], capture_output=True, text=True)
    return d, p.stdout.strip().splitlines()[-1] if p.stdout.strip() else 'no output ' + p.stderr[-200:]

with cf.ThreadPoolExecutor(jobs) as ex:
    for d, c in ex.map(confirm, todo):
        sid = os.path.basename(d)
        ok = 'build=ok' in c and 'suite_not_ok=0' in c and 'demo_with_change_rc=1' in c and 'demo_without_rc=0' in c
        if not ok:
            print('NOT CONFIRMED', c, flush=True)
            continue
        dst = '/verif/seeded/' + sid
        os.makedirs(dst, exist_ok=True)
        shutil.copy(d + '/patch.diff', dst + '/patch.diff')
        if os.path.isdir(dst + '/demo'):
            shutil.rmtree(dst + '/demo')
        shutil.copytree(d + '/demo', dst + '/demo', ignore=shutil.ignore_patterns('*.out', '*.log', '*.test'))
        try:
            meta = json.load(open(d + '/meta.json'))
        except Exception as e:
            meta = {'note': 'meta.json of the seeding agent was not valid JSON: %s' % e}
        meta['seed_id'] = sid
        meta['round'] = tag
        meta['confirmed'] = {'what_was_run': 'confirm_seed2.sh: scratch worktree of /repo HEAD, git apply patch.diff, go build ./..., whole suite go test -vet=off -count=1 ./... (all ok), demo fails with the change (rc=1) and passes on the clean tree (rc=0)', 'result': c}
        json.dump(meta, open(dst + '/meta.json', 'w'), indent=1)
        print('installed', c, flush=True)
